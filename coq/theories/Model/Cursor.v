(* Model/Cursor.v — cursor tracking, core/src/defaults/reconstructor.rs:
     process_cursors, TokPos, ws_len, nonbreaking_ws_len, nl_len, col_for_token_end_pre_fmt,
     col_for_token_end_post_fmt, offset_for_token, CursorTrackerImpl::relocate_cursors.
   (notify_token_deleted is not modelled: no token remover is registered.)

   Number conventions.  Byte counts are N ([blen]).  Everything the Rust subtracts on usize in
   relocate_cursors is computed in Z so that a negative intermediate is observable ([relocate],
   [relocate_subs]).  Subtractions in N are only used where a side lemma in Proofs/CursorProofs.v
   shows that they cannot truncate (rfind positions).  Narrowing casts are explicit: [u16], [u32].
   usize/u64/i64 are treated as unbounded (no text of 2^63 bytes exists). *)
From PasfmtVerif Require Export Model.Reconstruct.

(* ------------------------------------------------------------------ *)
(* small helpers *)

Definition blen (l : bytes) : N := N.of_nat (length l).

Definition u16 (n : N) : N := n mod 65536.
Definition u32 (n : N) : N := n mod 4294967296.
(* i64/usize -> u32 on a mathematical integer (two's complement wrap) *)
Definition u32z (z : Z) : N := Z.to_N (z mod 4294967296).

(* number of LF bytes; `s.split('\n').count() - 1` (split always yields count_lf + 1 pieces) *)
Fixpoint count_lf (l : bytes) : N :=
  match l with
  | [] => 0
  | b :: t => (if b =? 10 then 1 else 0) + count_lf t
  end.

(* `s.rfind('\n')` *)
Fixpoint rfind_lf (l : bytes) : option N :=
  match l with
  | [] => None
  | b :: t =>
      match rfind_lf t with
      | Some p => Some (p + 1)
      | None => if b =? 10 then Some 0 else None
      end
  end.

(* `s.split('\n').next().map(|l| l.len())`: length of the piece before the first LF *)
Fixpoint first_line_len (l : bytes) : N :=
  match l with
  | [] => 0
  | b :: t => if b =? 10 then 0 else 1 + first_line_len t
  end.

(* `s.split('\n')` *)
Fixpoint split_lf (l : bytes) : list bytes :=
  match l with
  | [] => [[]]
  | b :: t =>
      if b =? 10 then [] :: split_lf t
      else match split_lf t with
           | s :: r => (b :: s) :: r
           | [] => [[b]]
           end
  end.

Fixpoint nsum (l : list N) : N := match l with [] => 0 | a :: t => a + nsum t end.

Definition last_opt {A} (l : list A) : option A :=
  match rev l with [] => None | a :: _ => Some a end.

(* str::is_char_boundary; slicing a &str anywhere else panics *)
Definition is_char_boundary (l : bytes) (k : nat) : bool :=
  match k with
  | O => true
  | _ => match nth_error l k with
         | Some b => negb (is_cont b)
         | None => Nat.eqb k (length l)
         end
  end.

(* `while !content.is_char_boundary(offset) { offset -= 1; }` (commit 06ea4f6).  Index 0 is a
   boundary, so the loop stops at 0 at the latest; the O branch of the inner match is
   unreachable (CursorProofs.floor_char_boundary_spec). *)
Fixpoint floor_char_boundary (content : bytes) (k : nat) : nat :=
  if is_char_boundary content k then k
  else match k with
       | O => O
       | S k' => floor_char_boundary content k'
       end.

(* the value of `offset` after each `offset -= 1` of that loop, in Z *)
Fixpoint floor_subs (content : bytes) (k : nat) : list Z :=
  if is_char_boundary content k then []
  else (Z.of_nat k - 1)%Z ::
       match k with
       | O => []
       | S k' => floor_subs content k'
       end.

(* ------------------------------------------------------------------ *)
(* before formatting: process_cursors *)

(* RawToken: leading whitespace, content, type.  get_str() = ws ++ content *)
Definition rtok := (bytes * bytes * RawTokenType)%type.
Definition r_ws (t : rtok) : bytes := fst (fst t).
Definition r_content (t : rtok) : bytes := snd (fst t).
Definition r_ty (t : rtok) : RawTokenType := snd t.
Definition r_str (t : rtok) : bytes := r_ws t ++ r_content t.

(* enum TokPos, after the `as u16` / `as u32` narrowing *)
Inductive tokpos :=
  | PContent (offset : N)
  | PMultiline (reverse_col newlines_after : N)
  | PWhitespace (col newlines_after : N).

Definition is_multiline_raw (ty : RawTokenType) : bool :=
  match ty with
  | RTT_TextLiteral TK_MultiLine => true
  | RTT_Comment CoK_MultilineBlock => true
  | _ => false
  end.

(* the first loop of process_cursors for ONE cursor (cursors do not interact: a found cursor is
   never touched again, and the early `break` only happens once every cursor is found).
   Result: token index, the token, and cursor_rem - ws_len (the signed position relative to the
   start of the token's content). *)
Fixpoint find_cursor (toks : list rtok) (idx : nat) (rem : Z) : option (nat * rtok * Z) :=
  match toks with
  | [] => None
  | t :: r =>
      let next_len := Z.of_N (blen (r_str t)) in
      (* `<=`: a cursor at the very end of a token sticks to that token *)
      if (rem <=? next_len)%Z then Some (idx, t, (rem - Z.of_N (blen (r_ws t)))%Z)
      else find_cursor r (S idx) (rem - next_len)%Z
  end.

(* the body of `while let Some(tok) = tokens.get(idx)`, on the tokens idx, idx-1, …, 0.
   Rust: col += len; if let Some(pos) = rfind { col -= pos + 1; break }.  pos + 1 <= len, so the
   N subtraction below never truncates (CursorProofs.rfind_lf_lt). *)
Fixpoint col_back_pre (l : list rtok) : N :=
  match l with
  | [] => 0
  | t :: r =>
      let s := r_str t in
      match rfind_lf s with
      | Some pos => blen s - (pos + 1)
      | None => blen s + col_back_pre r
      end
  end.

(* col_for_token_end_pre_fmt(tokens, idx).  The argument here is idx1 = idx + 1 computed with
   wrap-around, so that the call site `tok_idx.wrapping_sub(1)` is `idx1 := tok_idx`, and
   tok_idx = 0 (usize::MAX, tokens.get fails at once) gives 0. *)
Definition col_for_token_end_pre_fmt (toks : list rtok) (idx1 : nat) : N :=
  col_back_pre (rev (firstn idx1 toks)).

(* the closure computing tok_pos from (tok_pos : i64, tok_idx) *)
Definition tokpos_of (toks : list rtok) (idx : nat) (t : rtok) (tp : Z) : tokpos :=
  if (0 <=? tp)%Z then
    if is_multiline_raw (r_ty t) then
      (* &content[tok_pos as usize..] *)
      let after := skipn (Z.to_nat tp) (r_content t) in
      PMultiline (u16 (first_line_len after)) (u16 (count_lf after))
    else PContent (u32z tp)
  else
    let ws := r_ws t in
    (* (len as u64).saturating_add_signed(tok_pos) as usize *)
    let k := Z.to_nat (Z.max 0 (Z.of_N (blen ws) + tp)) in
    let before := firstn k ws in
    let after := skipn k ws in
    let nla := u16 (count_lf after) in
    let col :=
      match rfind_lf before with
      | Some pos => blen before - 1 - pos
      | None => blen before + col_for_token_end_pre_fmt toks idx
      end in
    PWhitespace (u16 col) nla.

(* process_cursors for one cursor: (tok_idx, tok_pos) *)
Definition process_cursor (toks : list rtok) (c : N) : nat * tokpos :=
  match find_cursor toks 0 (Z.of_N c) with
  | None => (length toks, PContent 0)
  | Some (idx, t, tp) => (idx, tokpos_of toks idx t tp)
  end.

(* The two &str slicing operations of the closure panic when the cut is not on a character
   boundary (multi-line token content; leading whitespace, which may contain U+3000).
   true = no panic. *)
Definition process_cursor_ok (toks : list rtok) (c : N) : bool :=
  match find_cursor toks 0 (Z.of_N c) with
  | None => true
  | Some (idx, t, tp) =>
      if (0 <=? tp)%Z then
        if is_multiline_raw (r_ty t) then is_char_boundary (r_content t) (Z.to_nat tp) else true
      else is_char_boundary (r_ws t) (Z.to_nat (Z.max 0 (Z.of_N (blen (r_ws t)) + tp)))
  end.

(* ------------------------------------------------------------------ *)
(* after formatting *)

Definition nl_len (rs : rsettings) : N := blen (rs_newline rs).

(* NonBreakingWs { len, break_found } *)
Definition nonbreaking_ws_len (rs : rsettings) (p : ftoken) : N * bool :=
  let (tok, f) := p in
  if f_ignored f then
    let ws := t_ws tok in
    match rfind_lf ws with
    | Some pos => (blen ws - (pos + 1), true)      (* pos + 1 <= len: no truncation *)
    | None => (blen ws, false)
    end
  else
    (f_sp f + f_cont f * blen (rs_cont rs) + f_ind f * blen (rs_indent rs), 0 <? f_nl f).

Definition ws_len (rs : rsettings) (p : ftoken) : N :=
  let (tok, f) := p in
  if f_ignored f then blen (t_ws tok)
  else fst (nonbreaking_ws_len rs p) + f_nl f * nl_len rs.

(* loop body of col_for_token_end_post_fmt on the tokens idx, idx-1, …, 0 *)
Fixpoint col_back_post (rs : rsettings) (l : list ftoken) : N :=
  match l with
  | [] => 0
  | p :: r =>
      let c := t_content (fst p) in
      match rfind_lf c with
      | Some pos => blen c - (pos + 1)
      | None =>
          let (len, break_found) := nonbreaking_ws_len rs p in
          blen c + len + (if break_found then 0 else col_back_post rs r)
      end
  end.

(* col_for_token_end_post_fmt(tokens, idx) with idx1 = idx + 1 (wrapping), as above *)
Definition col_for_token_end_post_fmt (rs : rsettings) (toks : list ftoken) (idx1 : nat) : N :=
  col_back_post rs (rev (firstn idx1 toks)).

(* lacks_line_break (commit 65fa795): a line break has to be added in front of this token when
   it follows a single-line comment.  Shared by reconstruct and offset_for_token in the Rust;
   Model/Reconstruct.emit_ws inlines the same condition (CursorProofs.emit_ws_split). *)
Definition lacks_line_break (p : ftoken) : bool :=
  let (tok, f) := p in
  if is_eof (t_ty tok) then false
  else if f_ignored f then negb (has_break (t_ws tok))
  else f_nl f =? 0.

(* the bytes `if must_break && lacks_line_break(token) { pos += nl_len }` accounts for *)
Definition net_len (rs : rsettings) (mb : bool) (p : ftoken) : N :=
  if mb && lacks_line_break p then nl_len rs else 0.

(* offset_for_token with its must_break state; for idx >= len the loop never breaks and every
   content is added *)
Fixpoint offset_from (rs : rsettings) (mb : bool) (toks : list ftoken) (idx : nat) : N :=
  match toks with
  | [] => 0
  | p :: r =>
      net_len rs mb p + ws_len rs p +
      match idx with
      | O => 0
      | S j => blen (t_content (fst p)) + offset_from rs (is_sl_comment (t_ty (fst p))) r j
      end
  end.

Definition offset_for_token (rs : rsettings) (toks : list ftoken) (idx : nat) : N :=
  offset_from rs false toks idx.

(* content.rsplit('\n').take(nla).map(|l| l.len() + 1).sum() + reverse_col *)
Definition offset_from_end (content : bytes) (rc nla : N) : N :=
  nsum (map (fun line => blen line + 1) (firstn (N.to_nat nla) (rev (split_lf content)))) + rc.

(* `let token = match get_token(tok_idx) { Some(t) => t, None => last token with
   tok_pos := Content{len}, or return }` *)
Definition relocate_target (toks : list ftoken) (idx : nat) (pos : tokpos)
  : option (ftoken * tokpos) :=
  match nth_error toks idx with
  | Some p => Some (p, pos)
  | None =>
      match last_opt toks with
      | Some p => Some (p, PContent (u32 (blen (t_content (fst p)))))
      | None => None
      end
  end.

(* lines_back after the optional decrement (u16 arithmetic; the decrement happens only when
   lines_back > 0).  newlines_before.saturating_sub(lines_back) is the truncated N subtraction. *)
Definition lines_back (nl nla : N) : N :=
  let lb := N.min nla nl in
  if (nl <=? nla) && (1 <? nl) then lb - 1 else lb.

(* `ws.match_indices('\n')`: the byte positions of the LFs (i = position of the head of l) *)
Fixpoint lf_positions_from (i : N) (l : bytes) : list N :=
  match l with
  | [] => []
  | b :: t => if b =? 10 then i :: lf_positions_from (i + 1) t else lf_positions_from (i + 1) t
  end.

(* `ws.match_indices('\n').take(k).last().map_or(0, |(pos, _)| pos + 1)`: the offset just past
   the k-th LF of ws (past the last one if there are fewer; 0 if k = 0 or there is none) *)
Definition kept_len_ignored (ws : bytes) (k : nat) : N :=
  match last_opt (firstn k (lf_positions_from 0 ws)) with
  | Some pos => pos + 1
  | None => 0
  end.

(* `kept_len` of the blank-line branch (commit 014530d): for an ignored token the token's own
   line breaks are measured, for a formatted token the configured newline string.
   kept_breaks = newlines_before.saturating_sub(lines_back) as usize *)
Definition kept_len (rs : rsettings) (p : ftoken) (nla : N) : N :=
  let nl := f_nl (snd p) in
  let kept_breaks := nl - lines_back nl nla in
  if f_ignored (snd p) then kept_len_ignored (t_ws (fst p)) (N.to_nat kept_breaks)
  else nl_len rs * kept_breaks.

(* (col as usize).clamp(lo, hi); Rust asserts lo <= hi *)
Definition clamp (x lo hi : N) : N := if x <? lo then lo else if hi <? x then hi else x.

(* commit c3b0c3f, same-line branch, ignored tokens only:
     while !leading_ws.is_char_boundary(leading_ws.len() - back) { back += 1; }
   The index leading_ws.len() - back walks DOWN to a character boundary of the verbatim
   whitespace, i.e. it is floor_char_boundary of the initial index; back = len - index.
   The initial index is computed in Z: a negative value = usize underflow of `len - back`
   (CursorProofs.whitespace_no_underflow shows it cannot happen). *)
Definition ws_back_adjust (p : ftoken) (back0 : Z) : Z :=
  if f_ignored (snd p) then
    let lws := t_ws (fst p) in
    let i0 := (Z.of_N (blen lws) - back0)%Z in
    (Z.of_N (blen lws) - Z.of_nat (floor_char_boundary lws (Z.to_nat i0)))%Z
  else back0.

(* the values of `leading_ws.len() - back`, one per evaluation of the loop condition *)
Definition ws_back_subs (p : ftoken) (back0 : Z) : list Z :=
  if f_ignored (snd p) then
    let lws := t_ws (fst p) in
    let i0 := (Z.of_N (blen lws) - back0)%Z in
    i0 :: floor_subs lws (Z.to_nat i0)
  else [].

(* the `match cursor.tok_pos` of relocate_cursors: the new cursor as a mathematical integer,
   before the final `as u32` *)
Definition relocate_at (rs : rsettings) (toks : list ftoken) (idx : nat) (p : ftoken) (pos : tokpos) : Z :=
  let nto := Z.of_N (offset_for_token rs toks idx) in
  let clen := blen (t_content (fst p)) in
  match pos with
  | PContent off =>
      (* offset = (offset as usize).min(content.len()), stepped down to a char boundary of the
         NEW content; (new_token_offset + offset) as u32 *)
      let k := floor_char_boundary (t_content (fst p)) (N.to_nat (N.min off clen)) in
      (nto + Z.of_nat k)%Z
  | PMultiline rc nla =>
      let ofe := offset_from_end (t_content (fst p)) rc nla in
      (* offset = content.len() - offset_from_end.min(content.len()), stepped down likewise *)
      let k0 := (Z.of_N clen - Z.of_N (N.min ofe clen))%Z in
      let k := floor_char_boundary (t_content (fst p)) (Z.to_nat k0) in
      (nto + Z.of_nat k)%Z
  | PWhitespace col nla =>
      let nl := f_nl (snd p) in
      if 0 <? N.min nla nl then
        (* new_token_offset + kept_len - ws_len(token) *)
        (nto + Z.of_N (kept_len rs p nla) - Z.of_N (ws_len rs p))%Z
      else
        let (wl, break_found) := nonbreaking_ws_len rs p in
        let col_ws_start := if break_found then 0 else col_for_token_end_post_fmt rs toks idx in
        let col_start := col_ws_start + wl in
        let back0 := (Z.of_N col_start - Z.of_N (clamp col col_ws_start col_start))%Z in
        (nto - ws_back_adjust p back0)%Z
  end.

Definition relocate (rs : rsettings) (toks : list ftoken) (idx : nat) (pos : tokpos) : option Z :=
  match relocate_target toks idx pos with
  | None => None                      (* `return`: the cursor keeps its old value *)
  | Some (p, pos') => Some (relocate_at rs toks idx p pos')
  end.

Definition relocate_u32 (rs : rsettings) (toks : list ftoken) (idx : nat) (pos : tokpos) : option N :=
  option_map u32z (relocate rs toks idx pos).

(* The value of every usize subtraction performed by the match arm, in evaluation order; a
   negative entry = `attempt to subtract with overflow` in a debug build. *)
Definition relocate_subs (rs : rsettings) (toks : list ftoken) (idx : nat) (p : ftoken) (pos : tokpos) : list Z :=
  let nto := Z.of_N (offset_for_token rs toks idx) in
  let clen := blen (t_content (fst p)) in
  match pos with
  | PContent off => floor_subs (t_content (fst p)) (N.to_nat (N.min off clen))
  | PMultiline rc nla =>
      let ofe := offset_from_end (t_content (fst p)) rc nla in
      let k0 := (Z.of_N clen - Z.of_N (N.min ofe clen))%Z in
      k0 :: floor_subs (t_content (fst p)) (Z.to_nat k0)
  | PWhitespace col nla =>
      let nl := f_nl (snd p) in
      if 0 <? N.min nla nl then
        [(nto + Z.of_N (kept_len rs p nla) - Z.of_N (ws_len rs p))%Z]
      else
        let (wl, break_found) := nonbreaking_ws_len rs p in
        let col_ws_start := if break_found then 0 else col_for_token_end_post_fmt rs toks idx in
        let col_start := col_ws_start + wl in
        let d := (Z.of_N col_start - Z.of_N (clamp col col_ws_start col_start))%Z in
        d :: ws_back_subs p d ++ [(nto - ws_back_adjust p d)%Z]
  end.

(* process_cursors ; relocate_cursors for one cursor.  None = cursor left unchanged. *)
Definition track_cursor (rs : rsettings) (raw : list rtok) (final : list ftoken) (c : N) : option Z :=
  let (idx, pos) := process_cursor raw c in relocate rs final idx pos.

Definition track_cursor_u32 (rs : rsettings) (raw : list rtok) (final : list ftoken) (c : N) : N :=
  match track_cursor rs raw final c with
  | Some z => u32z z
  | None => c
  end.
