(* Model/ParserGrammar.v — core/src/defaults/parser.rs: parse_file and everything below it.
   Part 1 (Section Core, first half): the parser state of InternalDelphiLogicalLineParser, its
   primitives and all the *leaf* loops (loops that only call other leaves), each with its own fuel.
   Part 2: the mutually recursive grammar, defunctionalised: inductive `call` (entry points; closures
   passed as `action` are `action` values, context-ending predicates are `cpred` values with the
   evaluator `eval_pred`), the arms as definitions `arm_*`/`sa_*`/`st_*` over the recursive callback R
   (Section Arms), and ONE `Fixpoint run` that dispatches with R := run (fuel-1).  Out of fuel =
   E_fuel; a Rust panic site = E_panic <site>.
   Part 3 (after the section): parse_file, consolidate_pass_lines, the directive lines.

   Kernel by construction: result_lines' token lists, current_line, pass_index and
   last_finished_line are the `kstate` of Model/ParserKernel.v and are changed ONLY through `k_step`
   (function `emit`); the state carries the reversed event log and one `lmeta` per line
   (LocalLogicalLine.parent/level/line_type) in a dependent pair whose invariant says that the
   kernel state is the kernel run of the log.

   Conventions
   * contexts: `ps_ctx` is the Rust `context.contexts` zipped with `context.is_ended` (they always
     have the same length: push/pop act on both), in REVERSE order: head = Rust's `last()`.
     `ending_ctx` returns, instead of Rust's index `idx`, the number `len - idx` of top entries that
     `update_statuses(idx)` marks.
   * after an error (`ps_err = Some _`) every mutator returns the state unchanged.
   * fuel of every leaf loop = remaining tokens of the pass + 2. *)
From PasfmtVerif Require Export Model.Token Model.ParserKernel Model.Lines Model.DirectiveTree.
Local Open Scope nat_scope.

Inductive psite :=
  | PS_line_parent_unwrap        (* get_line_parent_of_current_token: get_current_token_index().unwrap() *)
  | PS_anon_routine_unwrap       (* parse_anonymous_routine: get_current_token_index().unwrap() *)
  | PS_dir_before_sub            (* is_directive_before_next_token: index - last_index *)
  | PS_dir_after_sub             (* is_directive_after_prev_token: last_index - index *)
  | PS_dir_after_index0          (* is_directive_after_prev_token: pass_indices[0] *)
  | PS_portability_sub           (* consolidate_portability_directives: tokens.len() - 1 *)
  | PS_line_ref.                 (* get_logical_line_from_ref(..).unwrap() *)
Inductive perr := E_fuel | E_panic (site : psite).

Record lmeta := mkLM { lm_parent : option (nat * nat); lm_level : N; lm_type : LogicalLineType }.
Definition lm0 : lmeta := mkLM None 0%N LLT_Unknown.

Definition appends (e : kev) : bool := match e with KL | KC => true | _ => false end.

Lemma upd_nth_len {A} i (f : A -> A) l : length (upd_nth i f l) = length l.
Proof. revert i; induction l as [|a t IH]; intros [|i]; cbn; try reflexivity. rewrite IH. reflexivity. Qed.

(* ------------------------------------------------------------------ *)
(* contexts *)
Inductive bkind := BK_Try | BK_Except | BK_Else | BK_Finally | BK_Begin | BK_Asm | BK_Repeat | BK_Initialization | BK_Finalization.
Inductive skind := SK_Case | SK_VariantRecord | SK_Except | SK_Normal.
Inductive ctype :=
  | CT_Unit | CT_Library | CT_Package | CT_Program | CT_Interface | CT_Implementation | CT_TypeBlock
  | CT_VisibilityBlock | CT_TypeDeclaration | CT_DeclarationBlock | CT_SubRoutine | CT_VariantRecord
  | CT_VariantDeclarationBlock | CT_LabelBlock | CT_StatementBlock (b : bkind) | CT_Statement (k : skind)
  | CT_TopLevelStatement | CT_BlockClause | CT_ImportExport | CT_Utility.

(* ParserContextLevel *)
Inductive clevel := CL_Parent (p : nat * nat) (l : N) | CL_Level (d : Z).
Definition clevel_parent (l : clevel) : option (nat * nat) := match l with CL_Parent p _ => Some p | CL_Level _ => None end.

(* the functions used as context_ending_predicate *)
Inductive cpred :=
  | P_never | P_top_semicolon | P_semicolon | P_kw_do | P_then | P_of | P_else | P_section_headings
  | P_visibility_block_ending | P_begin_asm | P_else_end | P_end | P_until | P_except_finally
  | P_not_comment_or_directive | P_declaration_section | P_local_declaration_section | P_rparen.

(* ParserContext; c_opaque = the predicate is wrapped in CEP::Opaque (else CEP::Transparent) *)
Record pctx := mkCtx { c_type : ctype; c_opaque : bool; c_pred : cpred; c_level : clevel }.

Definition bind {A B} (o : option A) (f : A -> option B) : option B := match o with Some a => f a | None => None end.

(* pure token-type tests *)
Definition tok_filter (t : RawTokenType) : bool :=
  match t with RTT_Comment _ | RTT_CompilerDirective | RTT_Eof => false | _ => true end.
Definition is_operator (t : RawTokenType) : bool :=
  match t with
  | RTT_Op _ => true
  | RTT_Keyword (KK_And | KK_As | KK_Div | KK_In IK_Op | KK_Is | KK_Mod | KK_Not | KK_Or | KK_Shl | KK_Shr | KK_Xor) => true
  | _ => false
  end.
Definition is_inline_comment (t : option RawTokenType) : bool :=
  match t with Some (RTT_Comment (CoK_InlineBlock | CoK_InlineLine)) => true | _ => false end.
Definition o_semicolon (t : option RawTokenType) : bool := match t with Some (RTT_Op OK_Semicolon) => true | _ => false end.
Definition o_colon (t : option RawTokenType) : bool := match t with Some (RTT_Op OK_Colon) => true | _ => false end.
Definition o_lparen (t : option RawTokenType) : bool := match t with Some (RTT_Op OK_LParen) => true | _ => false end.
Definition o_rparen (t : option RawTokenType) : bool := match t with Some (RTT_Op OK_RParen) => true | _ => false end.
Definition o_dot (t : option RawTokenType) : bool := match t with Some (RTT_Op OK_Dot) => true | _ => false end.
Definition o_kw_end (t : option RawTokenType) : bool := match t with Some (RTT_Keyword KK_End) => true | _ => false end.
Definition o_kw_else (t : option RawTokenType) : bool := match t with Some (RTT_Keyword KK_Else) => true | _ => false end.
Definition o_kw_of (t : option RawTokenType) : bool := match t with Some (RTT_Keyword KK_Of) => true | _ => false end.
Definition kk_of (t : option RawTokenType) : option KeywordKind :=
  match t with Some (RTT_IdentifierOrKeyword k | RTT_Keyword k) => Some k | _ => None end.
Definition is_portability (k : KeywordKind) : bool :=
  match k with KK_Deprecated | KK_Experimental | KK_Platform | KK_Library => true | _ => false end.
Definition is_routine_directive (k : KeywordKind) : bool :=
  KeywordKind_is_method_directive k || match k with KK_Name | KK_Index | KK_Delayed => true | _ => false end.
Definition is_directive_with_args (k : KeywordKind) : bool :=
  match k with KK_Message | KK_Deprecated | KK_DispId | KK_External | KK_Index | KK_Name => true | _ => false end.

Fixpoint mark_ended (k : nat) (l : list (pctx * bool)) : list (pctx * bool) :=
  match k, l with
  | S k', (c, _) :: r => (c, true) :: mark_ended k' r
  | _, _ => l
  end.

Fixpoint ctx_level_go (l : list (pctx * bool)) (acc : Z) : option (nat * nat) * Z :=
  match l with
  | [] => (None, acc)
  | (c, _) :: r => match c_level c with
                   | CL_Parent p d => (Some p, (acc + Z.of_N d)%Z)
                   | CL_Level d => ctx_level_go r (acc + d)%Z
                   end
  end.
(* sum.clamp(u16::MIN as i64, u16::MAX as i64) as u16 *)
Definition clamp_u16 (z : Z) : N := Z.to_N (Z.max 0 (Z.min 65535 z)).

Section Core.
Variable pass : list nat.        (* pass_indices *)
Variable wsnl : list bool.       (* per global token: its leading whitespace contains \r or \n *)

Definition kc_inv (p : kstate * list kev * list lmeta) : Prop :=
  fst (fst p) = k_run pass (rev (snd (fst p))) /\ length (snd p) = length (k_lines (fst (fst p))).
Definition kcore : Type := { p : kstate * list kev * list lmeta | kc_inv p }.

Lemma k_step_lines_len s e :
  length (k_lines (k_step pass s e)) = if appends e then S (length (k_lines s)) else length (k_lines s).
Proof.
  destruct e; cbn [k_step appends]; try reflexivity.
  - destruct (nth_error pass (k_pi s)); cbn [k_lines]; [apply upd_nth_len|reflexivity].
  - cbn [k_lines]. rewrite app_length. cbn. apply Nat.add_1_r.
  - cbn [k_lines]. rewrite app_length. cbn. apply Nat.add_1_r.
Qed.

Lemma kc_init_inv : kc_inv (k_init, [], [lm0]).
Proof. split; reflexivity. Qed.
Definition kc_init : kcore := exist _ (k_init, [], [lm0]) kc_init_inv.

Lemma emit_inv e m p : kc_inv p ->
  kc_inv (k_step pass (fst (fst p)) e, e :: snd (fst p), if appends e then snd p ++ [m] else snd p).
Proof.
  unfold kc_inv. cbn [fst snd]. intros [H1 H2]. split.
  - cbn [rev]. unfold k_run. rewrite fold_left_app. cbn [fold_left]. f_equal. exact H1.
  - rewrite k_step_lines_len. destruct (appends e); [rewrite app_length; cbn; rewrite Nat.add_1_r; f_equal; exact H2|exact H2].
Qed.

Lemma set_meta_inv i f p : kc_inv p -> kc_inv (fst p, upd_nth i f (snd p)).
Proof. unfold kc_inv. cbn [fst snd]. intros [H1 H2]. split; [exact H1|]. rewrite upd_nth_len. exact H2. Qed.

(* the only two constructors of new kernel cores *)
Definition emit (e : kev) (m : lmeta) (c : kcore) : kcore :=
  match c with
  | exist _ p H => exist _ (k_step pass (fst (fst p)) e, e :: snd (fst p), if appends e then snd p ++ [m] else snd p) (emit_inv e m p H)
  end.
Definition set_meta (i : nat) (f : lmeta -> lmeta) (c : kcore) : kcore :=
  match c with
  | exist _ p H => exist _ (fst p, upd_nth i f (snd p)) (set_meta_inv i f p H)
  end.

Definition kc_st (c : kcore) : kstate := fst (fst (proj1_sig c)).
Definition kc_evs (c : kcore) : list kev := snd (fst (proj1_sig c)).      (* reversed *)
Definition kc_meta (c : kcore) : list lmeta := snd (proj1_sig c).

(* ------------------------------------------------------------------ *)
Record pstate := mkPS {
  ps_core : kcore;
  ps_toks : list RawTokenType;           (* self.tokens, types only *)
  ps_ctx : list (pctx * bool);           (* context.contexts zip context.is_ended, reversed *)
  ps_unfinished : list nat;              (* unfinished_comment_lines (a set for all uses) *)
  ps_cur_unfinished : bool;              (* current_line_is_unfinished *)
  ps_paren : N; ps_brack : N; ps_generic : N;
  ps_attr : list nat;                    (* attributed_directives *)
  ps_err : option perr }.

Definition set_core c s := mkPS c (ps_toks s) (ps_ctx s) (ps_unfinished s) (ps_cur_unfinished s) (ps_paren s) (ps_brack s) (ps_generic s) (ps_attr s) (ps_err s).
Definition set_toks t s := mkPS (ps_core s) t (ps_ctx s) (ps_unfinished s) (ps_cur_unfinished s) (ps_paren s) (ps_brack s) (ps_generic s) (ps_attr s) (ps_err s).
Definition set_ctx x s := mkPS (ps_core s) (ps_toks s) x (ps_unfinished s) (ps_cur_unfinished s) (ps_paren s) (ps_brack s) (ps_generic s) (ps_attr s) (ps_err s).
Definition set_unfinished u b s := mkPS (ps_core s) (ps_toks s) (ps_ctx s) u b (ps_paren s) (ps_brack s) (ps_generic s) (ps_attr s) (ps_err s).
Definition set_levels p b g s := mkPS (ps_core s) (ps_toks s) (ps_ctx s) (ps_unfinished s) (ps_cur_unfinished s) p b g (ps_attr s) (ps_err s).
Definition set_attr a s := mkPS (ps_core s) (ps_toks s) (ps_ctx s) (ps_unfinished s) (ps_cur_unfinished s) (ps_paren s) (ps_brack s) (ps_generic s) a (ps_err s).
Definition set_err e s := mkPS (ps_core s) (ps_toks s) (ps_ctx s) (ps_unfinished s) (ps_cur_unfinished s) (ps_paren s) (ps_brack s) (ps_generic s) (ps_attr s) e.

Definition ps_init (toks : list RawTokenType) (attr : list nat) : pstate :=
  mkPS kc_init toks [] [] false 0%N 0%N 0%N attr None.

Definition has_err (s : pstate) : bool := match ps_err s with Some _ => true | None => false end.
Definition fail (e : perr) (s : pstate) : pstate := if has_err s then s else set_err (Some e) s.
Definition guard (f : pstate -> pstate) (s : pstate) : pstate := if has_err s then s else f s.

Definition kst (s : pstate) : kstate := kc_st (ps_core s).
Definition metas (s : pstate) : list lmeta := kc_meta (ps_core s).
Definition pidx (s : pstate) : nat := k_pi (kst s).                         (* pass_index *)
Definition remaining (s : pstate) : nat := length pass - pidx s.
Definition p_emit (e : kev) (m : lmeta) : pstate -> pstate := guard (fun s => set_core (emit e m (ps_core s)) s).

(* ------------------------------------------------------------------ *)
(* token access *)
Definition tt_at (s : pstate) (i : nat) : option RawTokenType := nth_error (ps_toks s) i.
Definition filt_at (s : pstate) (i : nat) : bool := match tt_at s i with Some t => tok_filter t | None => false end.
(* get_current_token_index *)
Definition cur_index (s : pstate) : option nat := nth_error pass (pidx s).
(* get_token_index::<0>: the current token unless it is Eof *)
Definition idx0 (s : pstate) : option nat :=
  match cur_index s with
  | Some i => match tt_at s i with Some RTT_Eof => None | Some _ => Some i | None => None end
  | None => None
  end.
(* get_token_index::<-1>: None when pass_index is past the last token (checked_sub) *)
Definition idx_prev (s : pstate) : option nat :=
  if pidx s <? length pass then find (filt_at s) (rev (firstn (pidx s) pass)) else None.
(* get_token_index::<1> *)
Definition idx_next (s : pstate) : option nat := find (filt_at s) (skipn (S (pidx s)) pass).
Definition cur_tt (s : pstate) : option RawTokenType := bind (idx0 s) (tt_at s).      (* get_current_token_type *)
Definition prev_tt (s : pstate) : option RawTokenType := bind (idx_prev s) (tt_at s).  (* get_token_type::<-1> *)
Definition next_tt (s : pstate) : option RawTokenType := bind (idx_next s) (tt_at s).  (* get_token_type::<1> *)
Definition cur_kk (s : pstate) : option KeywordKind := kk_of (cur_tt s).               (* get_current_keyword_kind *)
(* get_token_type_for_index *)
Definition tt_for_index (s : pstate) (i : nat) : option RawTokenType := bind (nth_error pass i) (tt_at s).

Definition set_tok (i : nat) (t : RawTokenType) : pstate -> pstate :=
  guard (fun s => set_toks (upd_nth i (fun _ => t) (ps_toks s)) s).
Definition upd_cur (f : RawTokenType -> option RawTokenType) (s : pstate) : pstate :=
  match idx0 s with
  | Some i => match bind (tt_at s i) f with Some t' => set_tok i t' s | None => s end
  | None => s
  end.
Definition consolidate_current_ident : pstate -> pstate :=
  upd_cur (fun t => match t with RTT_IdentifierOrKeyword _ => Some RTT_Identifier | _ => None end).
Definition consolidate_current_keyword : pstate -> pstate :=
  upd_cur (fun t => match t with RTT_IdentifierOrKeyword k => Some (RTT_Keyword k) | _ => None end).
Definition set_current_token_type (t : RawTokenType) : pstate -> pstate := upd_cur (fun _ => Some t).
Definition set_current_decl_kind (dk : DeclKind) : pstate -> pstate :=
  upd_cur (fun t => match t with
                    | RTT_Keyword (KK_Const _) => Some (RTT_Keyword (KK_Const dk))
                    | RTT_Keyword (KK_Var _) => Some (RTT_Keyword (KK_Var dk))
                    | _ => None end).
Definition consolidate_current_caret_to_type : pstate -> pstate :=
  upd_cur (fun t => match t with RTT_Op (OK_Caret CaK_Deref) => Some (RTT_Op (OK_Caret CaK_Type)) | _ => None end).
(* consolidate_prev_keyword: pass_index - 1 unfiltered *)
Definition consolidate_prev_keyword (s : pstate) : pstate :=
  match pidx s with
  | O => s
  | S p => match nth_error pass p with
           | Some i => match tt_at s i with Some (RTT_IdentifierOrKeyword k) => set_tok i (RTT_Keyword k) s | _ => s end
           | None => s
           end
  end.
(* consolidate_class_op_in *)
Definition consolidate_class_op_in (s : pstate) : pstate :=
  match idx_next s with
  | Some i => match tt_at s i with Some (RTT_Keyword (KK_In _)) => set_tok i RTT_Identifier s | _ => s end
  | None => s
  end.

(* ------------------------------------------------------------------ *)
(* lines *)
Definition cur_ref (s : pstate) : nat := k_top (kst s).                      (* *current_line.last() *)
Definition cur_toks (s : pstate) : list nat := nth (cur_ref s) (k_lines (kst s)) [].
Definition at_start (s : pstate) : bool := match cur_toks s with [] => true | _ :: _ => false end.  (* is_at_start_of_line *)
Definition cur_type (s : pstate) : LogicalLineType := lm_type (nth (cur_ref s) (metas s) lm0).
Definition cur_line_tts (s : pstate) : list RawTokenType :=
  flat_map (fun i => match tt_at s i with Some t => [t] | None => [] end) (cur_toks s).
Definition p_set_meta (i : nat) (f : lmeta -> lmeta) : pstate -> pstate :=
  guard (fun s => set_core (set_meta i f (ps_core s)) s).
Definition set_line_type (t : LogicalLineType) (s : pstate) : pstate :=
  p_set_meta (cur_ref s) (fun m => mkLM (lm_parent m) (lm_level m) t) s.
Definition llt_is (a b : LogicalLineType) : bool := LogicalLineType_eqb a b.

(* ------------------------------------------------------------------ *)
(* contexts *)
Definition push_ctx (c : pctx) : pstate -> pstate := guard (fun s => set_ctx ((c, false) :: ps_ctx s) s).
Definition pop_ctx : pstate -> pstate := guard (fun s => set_ctx (tl (ps_ctx s)) s).
Definition last_ctx (s : pstate) : option pctx := match ps_ctx s with (c, _) :: _ => Some c | [] => None end.
Definition last_ctype (s : pstate) : option ctype := option_map c_type (last_ctx s).
Definition any_ctype (p : ctype -> bool) (s : pstate) : bool := existsb (fun c => p (c_type (fst c))) (ps_ctx s).
Definition is_in_type_decl : pstate -> bool := any_ctype (fun t => match t with CT_TypeDeclaration => true | _ => false end).
Definition is_in_statement (s : pstate) : bool := match last_ctype s with Some (CT_Statement _) => true | _ => false end.
Definition last_is_ended (s : pstate) : option bool := match ps_ctx s with (_, e) :: _ => Some e | [] => None end.
Definition get_context_level (s : pstate) : option (nat * nat) * N :=
  let (p, z) := ctx_level_go (ps_ctx s) 0%Z in (p, clamp_u16 z).

Definition visibility_specifier (s : pstate) : bool :=
  match cur_kk s with
  | Some (KK_Private | KK_Protected | KK_Public | KK_Published | KK_Automated | KK_Strict) => true
  | _ => false
  end.
Definition declaration_section (s : pstate) : bool :=
  match prev_tt s, cur_tt s with
  | Some (RTT_Op (OK_Equal _) | RTT_Keyword KK_Packed), Some (RTT_Keyword KK_Class) => false
  | _, Some (RTT_Keyword kk | RTT_IdentifierOrKeyword kk) =>
      match kk with
      | KK_Exports | KK_Begin | KK_Asm | KK_Class | KK_Property | KK_Function | KK_Procedure | KK_Constructor
      | KK_Destructor | KK_End | KK_Implementation | KK_Initialization | KK_Finalization => true
      | KK_Strict | KK_Private | KK_Protected | KK_Public | KK_Published | KK_Automated => is_in_type_decl s
      | _ => KeywordKind_is_decl_section kk
      end
  | _, _ => false
  end.

Definition eval_pred (p : cpred) (s : pstate) : bool :=
  match p with
  | P_never => false
  | P_top_semicolon => o_semicolon (cur_tt s) && negb (llt_is (cur_type s) LLT_RoutineHeader)
  | P_semicolon => o_semicolon (cur_tt s)
  | P_kw_do => match cur_kk s with Some KK_Do => true | _ => false end
  | P_then => match cur_kk s with Some KK_Then => true | _ => false end
  | P_of => match cur_kk s with Some KK_Of => true | _ => false end
  | P_else => o_kw_else (cur_tt s)
  | P_section_headings =>
      match cur_tt s with
      | Some (RTT_Keyword (KK_Implementation | KK_Initialization | KK_Finalization | KK_End)) => true
      | Some (RTT_Keyword KK_Interface) => negb (match prev_tt s with Some (RTT_Op (OK_Equal _)) => true | _ => false end)
      | _ => false
      end
  | P_visibility_block_ending => visibility_specifier s || o_kw_end (cur_tt s)
  | P_begin_asm => match cur_tt s with Some (RTT_Keyword (KK_Begin | KK_Asm)) => true | _ => false end
  | P_else_end => match cur_tt s with Some (RTT_Keyword (KK_End | KK_Else)) => true | _ => false end
  | P_end => o_kw_end (cur_tt s)
  | P_until => match cur_tt s with Some (RTT_Keyword KK_Until) => true | _ => false end
  | P_except_finally => match cur_tt s with Some (RTT_Keyword (KK_Except | KK_Finally)) => true | _ => false end
  | P_not_comment_or_directive =>
      match cur_tt s with Some t => negb (RawTokenType_is_comment_or_directive t) | None => true end
  | P_declaration_section => declaration_section s
  | P_local_declaration_section =>
      match cur_tt s with
      | Some (RTT_Keyword (KK_Exports | KK_Begin | KK_Asm | KK_End | KK_Function | KK_Procedure)) => true
      | Some (RTT_Keyword kk) => KeywordKind_is_decl_section kk
      | _ => false
      end
  | P_rparen => o_rparen (cur_tt s)
  end.

(* get_ending_context_idx, as the number of top entries update_statuses would mark *)
Fixpoint ending_go (s : pstate) (l : list (pctx * bool)) (depth : nat) : option nat :=
  match l with
  | [] => None
  | (c, ended) :: r =>
      if ended then Some (S depth)
      else if eval_pred (c_pred c) s then Some (S depth)
      else if c_opaque c then None
      else ending_go s r (S depth)
  end.
Definition ending_ctx (s : pstate) : option nat := ending_go s (ps_ctx s) 0.
Definition is_ending (s : pstate) : bool := match ending_ctx s with Some _ => true | None => false end.
Definition update_statuses (k : nat) : pstate -> pstate := guard (fun s => set_ctx (mark_ended k (ps_ctx s)) s).

(* ------------------------------------------------------------------ *)
(* next_token / skip_token *)
Definition sat_pred (n : N) : N := N.pred n.
Definition track_levels (s : pstate) : pstate :=
  match cur_tt s with
  | Some (RTT_Op OK_LParen) => set_levels (ps_paren s + 1)%N (ps_brack s) (ps_generic s) s
  | Some (RTT_Op OK_RParen) => set_levels (sat_pred (ps_paren s)) (ps_brack s) (ps_generic s) s
  | Some (RTT_Op OK_LBrack) => set_levels (ps_paren s) (ps_brack s + 1)%N (ps_generic s) s
  | Some (RTT_Op OK_RBrack) => set_levels (ps_paren s) (sat_pred (ps_brack s)) (ps_generic s) s
  | Some (RTT_Op (OK_LessThan _)) => set_levels (ps_paren s) (ps_brack s) (ps_generic s + 1)%N s
  | Some (RTT_Op (OK_GreaterThan _)) => set_levels (ps_paren s) (ps_brack s) (sat_pred (ps_generic s)) s
  | _ => s
  end.
Definition next_token_body (s : pstate) : pstate :=
  let s1 := match cur_index s, cur_tt s with
            | Some i, Some RTT_CompilerDirective =>
                if existsb (Nat.eqb i) (ps_attr s) then s else set_attr (i :: ps_attr s) s
            | _, _ => s
            end in
  p_emit KT lm0 (track_levels s1).
Fixpoint next_token_go (fuel : nat) (s : pstate) : pstate :=
  match fuel with
  | O => fail E_fuel s
  | S f => if has_err s then s else
           let s1 := next_token_body s in
           if is_inline_comment (cur_tt s1) then next_token_go f s1 else s1
  end.
Definition next_token (s : pstate) : pstate := next_token_go (remaining s + 2) s.
Definition skip_token : pstate -> pstate := p_emit KS lm0.

(* ------------------------------------------------------------------ *)
(* is_directive_before_next_token / is_directive_after_prev_token; None = usize underflow *)
Fixpoint dir_before_go (s : pstate) (l : list nat) (last : nat) : option bool :=
  match l with
  | [] => Some false
  | i :: r => if i <? last then None
              else if 1 <? i - last then Some true
              else if filt_at s i then Some false
              else dir_before_go s r i
  end.
Definition is_directive_before_next_token (s : pstate) : option bool :=
  dir_before_go s (skipn (S (pidx s)) pass) (pidx s).
Fixpoint dir_after_go (s : pstate) (l : list nat) (last : nat) : option bool :=
  match l with
  | [] => match pass with i0 :: _ => Some (negb (Nat.eqb i0 0)) | [] => None end
  | i :: r => if last <? i then None
              else if 1 <? last - i then Some true
              else if filt_at s i then Some false
              else dir_after_go s r i
  end.
Definition is_directive_after_prev_token (s : pstate) : option bool :=
  match cur_index s with
  | None => Some false
  | Some last => if length pass <? pidx s then Some false
                 else dir_after_go s (rev (firstn (pidx s) pass)) last
  end.

(* ------------------------------------------------------------------ *)
(* consolidate_portability_directives *)
Definition line_tt (s : pstate) (li : nat) : option RawTokenType := bind (nth_error (cur_toks s) li) (tt_at s).
Fixpoint portability_go (li : nat) (s : pstate) : pstate :=
  match nth_error (cur_toks s) li with
  | None => s
  | Some ti =>
      let prev := match li with O => None | S p => line_tt s p end in
      if match line_tt s li with
         | Some (RTT_Identifier | RTT_NumberLiteral _ | RTT_Keyword KK_Type | RTT_Op (OK_RBrack | OK_RParen | OK_Semicolon)) => true
         | _ => false end then s
      else if match prev with
              | Some (RTT_Op (OK_RBrack | OK_RParen)) => false
              | Some (RTT_Keyword (KK_Type | KK_Of)) => true
              | Some t => is_operator t
              | None => false end then s
      else
        let s1 := match tt_at s ti with
                  | Some (RTT_IdentifierOrKeyword ((KK_Deprecated | KK_Experimental | KK_Platform | KK_Library) as d)) =>
                      set_tok ti (RTT_Keyword d) s
                  | _ => s end in
        match li with O => s1 | S p => portability_go p s1 end
  end.
(* `while line_index > 0 && matches!(type at line_index, Some(Comment(_))) { line_index -= 1 }`:
   comments that trail the declaration are not part of it *)
Fixpoint skip_trailing_comments (s : pstate) (li : nat) : nat :=
  match li with
  | O => O
  | S p => match line_tt s li with Some (RTT_Comment _) => skip_trailing_comments s p | _ => li end
  end.
Definition consolidate_portability_directives (s : pstate) : pstate :=
  if negb (existsb (fun t => match t with RTT_Op (OK_Equal _ | OK_Colon) => true | _ => false end) (cur_line_tts s)) then s
  else match length (cur_toks s) with
       | O => fail (E_panic PS_portability_sub) s          (* tokens.len() - 1 *)
       | S li =>
           let li := skip_trailing_comments s li in
           if o_semicolon (line_tt s li) then
             match li with O => s (* checked_sub(1) is None: return *) | S li' => portability_go li' s end
           else portability_go li s
       end.

(* ------------------------------------------------------------------ *)
(* finish_logical_line *)
Fixpoint inline_comments_go (fuel : nat) (s : pstate) : pstate :=
  match fuel with
  | O => fail E_fuel s
  | S f => if has_err s then s else
           match cur_index s with
           | Some _ => if is_inline_comment (cur_tt s) then inline_comments_go f (p_emit KT lm0 s) else s
           | None => s
           end
  end.
Definition finish_logical_line : pstate -> pstate := guard (fun s =>
  if at_start s then set_line_type LLT_Unknown s
  else
    let s := consolidate_portability_directives s in
    let s := inline_comments_go (remaining s + 2) s in
    let '(parent, lvl) := get_context_level s in
    let s := if ps_cur_unfinished s then s
             else set_unfinished [] (ps_cur_unfinished s)
                    (fold_left (fun s r => p_set_meta r (fun m => mkLM (lm_parent m) lvl (lm_type m)) s) (ps_unfinished s) s) in
    let s := set_unfinished (ps_unfinished s) false s in
    let r := cur_ref s in
    let s := p_set_meta r (fun m => mkLM parent lvl (lm_type m)) s in
    p_emit KL (mkLM None lvl LLT_Unknown) s).
Definition make_unfinished_line : pstate -> pstate := guard (fun s =>
  finish_logical_line (set_unfinished (ps_unfinished s ++ [cur_ref s]) true s)).

(* ------------------------------------------------------------------ *)
(* skip_pair *)
Fixpoint skip_pair_go (fuel : nat) (p b g : N) (chev : bool) (s : pstate) : pstate :=
  match fuel with
  | O => fail E_fuel s
  | S f => if has_err s then s else
           if (negb (ps_paren s =? p)%N || negb (ps_brack s =? b)%N || (chev && negb (ps_generic s =? g)%N))
              && match cur_tt s with Some _ => true | None => false end
           then skip_pair_go f p b g chev (next_token s) else s
  end.
Definition skip_pair (s : pstate) : pstate :=
  let chev := match cur_tt s with Some (RTT_Op (OK_LessThan _)) => true | _ => false end in
  let s1 := next_token s in
  skip_pair_go (remaining s1 + 2) (ps_paren s) (ps_brack s) (ps_generic s) chev s1.

(* ------------------------------------------------------------------ *)
(* op_until / simple_op_until / take_until; op returns (state, OpResult::Continue?) *)
Fixpoint op_until_go (fuel : nat) (pred : pstate -> bool) (op : pstate -> pstate * bool) (s : pstate) : pstate :=
  match fuel with
  | O => fail E_fuel s
  | S f => if has_err s then s else
           match cur_tt s with
           | None => s
           | Some _ => if pred s then s
                       else if is_ending s then s
                       else let (s1, cont) := op s in if cont then op_until_go f pred op s1 else s1
           end
  end.
Definition op_until (pred : pstate -> bool) (op : pstate -> pstate * bool) (s : pstate) : pstate :=
  op_until_go (remaining s + 2) pred op s.
Definition simple_op_until (pred : pstate -> bool) (op : pstate -> pstate) : pstate -> pstate :=
  op_until pred (fun s => (op s, true)).
Definition take_until (pred : pstate -> bool) : pstate -> pstate := simple_op_until pred next_token.

Definition never (_ : pstate) : bool := false.
Definition no_more_separators (s : pstate) : bool := negb (o_semicolon (cur_tt s)).
Definition after_semicolon (s : pstate) : bool := o_semicolon (prev_tt s) && negb (o_semicolon (cur_tt s)).
Definition outside_parens (n : N) (s : pstate) : bool := (ps_paren s <=? n)%N.
Definition outside_bracks (n : N) (s : pstate) : bool := (ps_brack s <=? n)%N.
Definition keyword_consolidator (p : KeywordKind -> bool) (s : pstate) : pstate :=
  next_token (match cur_tt s with
              | Some (RTT_IdentifierOrKeyword k) => if p k then consolidate_current_keyword s else s
              | _ => s end).

(* ------------------------------------------------------------------ *)
(* parse_expression *)
Fixpoint parse_expression_go (fuel : nat) (s : pstate) : pstate :=
  match fuel with
  | O => fail E_fuel s
  | S f => if has_err s then s else
    match cur_tt s with
    | Some (RTT_Op (OK_LParen | OK_LBrack)) => parse_expression_go f (skip_pair s)
    | Some (RTT_Op (OK_Caret _)) => next_token s
    | Some (RTT_Op (OK_Semicolon | OK_Colon)) => s
    | Some t =>
        if is_operator t then
          let s1 := next_token s in
          let s2 := match cur_tt s1 with
                    | Some (RTT_IdentifierOrKeyword _) => next_token (consolidate_current_ident s1)
                    | Some (RTT_Identifier | RTT_TextLiteral _ | RTT_NumberLiteral _) => next_token s1
                    | _ => s1 end in
          parse_expression_go f s2
        else match t with
             | RTT_Keyword _ | RTT_Identifier | RTT_IdentifierOrKeyword _ | RTT_TextLiteral _ | RTT_NumberLiteral _ => s
             | _ => parse_expression_go f (next_token s)
             end
    | None => s
    end
  end.
Definition parse_expression (s : pstate) : pstate :=
  match cur_tt s with
  | Some (RTT_Op (OK_LParen | OK_LBrack)) => let s1 := skip_pair s in parse_expression_go (remaining s1 + 2) s1
  | Some (RTT_Op (OK_Semicolon | OK_Colon)) => s
  | Some (RTT_Keyword k) =>
      if is_operator (RTT_Keyword k) then let s1 := next_token s in parse_expression_go (remaining s1 + 2) s1 else s
  | _ => let s1 := next_token s in parse_expression_go (remaining s1 + 2) s1
  end.

(* ------------------------------------------------------------------ *)
(* parse_parameter_list *)
Fixpoint fix_next_eq_go (s : pstate) (l : list nat) : pstate :=
  match l with
  | [] => s
  | i :: r => match tt_at s i with
              | None => s
              | Some (RTT_Op (OK_Equal EK_Decl | OK_Semicolon | OK_RParen)) => s
              | Some (RTT_Op (OK_Equal EK_Comp)) => set_tok i (RTT_Op (OK_Equal EK_Decl)) s
              | Some _ => fix_next_eq_go s r
              end
  end.
Definition fix_next_eq (s : pstate) : pstate := fix_next_eq_go s (skipn (S (pidx s)) pass).

Definition param_window (s : pstate) : pstate :=
  let p := prev_tt s in let c := cur_tt s in let n := next_tt s in
  if match p, c with Some (RTT_Op (OK_Colon | OK_Dot)), Some (RTT_IdentifierOrKeyword _) => true | _, _ => false end
  then consolidate_current_ident s
  else if match p, c with Some (RTT_Op (OK_Semicolon | OK_LParen)), Some (RTT_IdentifierOrKeyword KK_Out) => true | _, _ => false end
  then consolidate_current_keyword s
  else if match p, c with Some (RTT_Op OK_Colon), Some (RTT_Op (OK_Caret _)) => true | _, _ => false end
  then next_token (consolidate_current_caret_to_type s)
  else if match c, n with Some (RTT_Keyword KK_Of), Some (RTT_Keyword (KK_Const _)) => true | _, _ => false end
  then next_token s
  else if match c, n with Some (RTT_Op (OK_Semicolon | OK_LParen)), Some (RTT_Keyword (KK_Const _ | KK_Var _)) => true | _, _ => false end
  then set_current_decl_kind DK_Param (next_token s)
  else s.
Fixpoint parameter_list_go (fuel : nat) (p0 : N) (consumed : bool) (s : pstate) : pstate :=
  match fuel with
  | O => fail E_fuel s
  | S f => if has_err s then s else
    if consumed && o_rparen (prev_tt s) && (ps_paren s <=? p0)%N then s
    else match cur_tt s with
         | None => s
         | Some t =>
             let s1 := match t with RTT_Op (OK_Semicolon | OK_LParen) => fix_next_eq s | _ => s end in
             parameter_list_go f p0 true (next_token (param_window s1))
         end
  end.
Definition parse_parameter_list (s : pstate) : pstate := parameter_list_go (remaining s + 2) (ps_paren s) false s.

(* ------------------------------------------------------------------ *)
(* parse_routine_header *)
Definition routine_header_op (s : pstate) : pstate * bool :=
  let c := cur_tt s in
  if match c, prev_tt s with
     | Some (RTT_IdentifierOrKeyword _),
       Some (RTT_Op (OK_Colon | OK_Dot) | RTT_Keyword (KK_Function | KK_Procedure | KK_Constructor | KK_Destructor)) => true
     | _, _ => false end
  then (next_token (consolidate_current_ident s), true)
  else match c with
  | Some (RTT_Op (OK_Equal _)) =>
      (consolidate_current_ident (next_token (set_current_token_type (RTT_Op (OK_Equal EK_Decl)) s)), true)
  | Some (RTT_Op OK_LParen) => (parse_parameter_list s, true)
  | Some (RTT_Op (OK_LessThan _)) => (skip_pair s, true)
  | Some (RTT_Op OK_Semicolon) =>
      let s1 := take_until no_more_separators (next_token s) in
      (s1, match cur_kk s1 with Some k => is_routine_directive k | None => false end)
  | Some (RTT_Op (OK_Caret CaK_Deref)) =>
      (next_token (if o_colon (prev_tt s) then consolidate_current_caret_to_type s else s), true)
  | Some (RTT_Keyword k | RTT_IdentifierOrKeyword k) =>
      if is_routine_directive k && (ps_paren s =? 0)%N then
        if match next_tt s with Some (RTT_Op (OK_Comma | OK_Colon)) => true | _ => false end then (s, false)
        else
          let s1 := next_token (consolidate_current_keyword s) in
          if match k, cur_kk s1 with KK_External, Some KK_Name => true | _, _ => false end then (s1, true)
          else if is_directive_with_args k then (parse_expression s1, true)
          else (s1, true)
      else (next_token s, true)
  | _ => (next_token s, true)
  end.
Definition parse_routine_header (s : pstate) : pstate :=
  take_until no_more_separators (op_until never routine_header_op (next_token s)).

(* ------------------------------------------------------------------ *)
(* parse_property_declaration *)
Definition property_op (s : pstate) : pstate :=
  let p := prev_tt s in let c := cur_tt s in let n := next_tt s in
  if match c with Some (RTT_IdentifierOrKeyword _) =>
       o_colon n || match p with Some (RTT_Op OK_Colon | RTT_Keyword KK_Property) => true | _ => false end
     | _ => false end
  then next_token (consolidate_current_ident s)
  else if match p, c with Some (RTT_Op OK_Colon), Some (RTT_Op (OK_Caret _)) => true | _, _ => false end
  then next_token (consolidate_current_caret_to_type s)
  else match c with
       | Some (RTT_IdentifierOrKeyword k | RTT_Keyword k) =>
           if KeywordKind_is_property_directive k && (ps_brack s =? 0)%N then
             let s1 := next_token (consolidate_current_keyword s) in
             if match k with KK_ReadOnly | KK_WriteOnly | KK_NoDefault => true | _ => false end then s1
             else parse_expression s1
           else next_token s
       | _ => next_token s
       end.
Definition parse_property_declaration (s : pstate) : pstate :=
  let s := parse_expression (next_token (set_line_type LLT_PropertyDeclaration s)) in
  let p0 := ps_paren s in let b0 := ps_brack s in
  let s := simple_op_until (fun s => after_semicolon s && (outside_parens p0 s && outside_bracks b0 s)) property_op s in
  let s := match cur_kk s with
           | Some KK_Default => take_until no_more_separators (next_token (consolidate_current_keyword s))
           | _ => s end in
  finish_logical_line s.

(* ------------------------------------------------------------------ *)
(* parse_asm_instructions *)
Definition add_asm_instruction_line (s : pstate) : pstate := finish_logical_line (set_line_type LLT_AsmInstruction s).
Fixpoint asm_instructions_go (fuel : nat) (s : pstate) : pstate :=
  match fuel with
  | O => fail E_fuel s
  | S f => if has_err s then s else
    match idx0 s with
    | None => s
    | Some i =>
        match tt_at s i with
        | Some (RTT_Keyword KK_End) | None => s
        | Some (RTT_Op OK_Semicolon) => asm_instructions_go f (add_asm_instruction_line (next_token s))
        | Some _ => if nth i wsnl false then asm_instructions_go f (next_token (add_asm_instruction_line s))
                    else asm_instructions_go f (next_token s)
        end
    end
  end.
Definition parse_asm_instructions (s : pstate) : pstate :=
  add_asm_instruction_line (asm_instructions_go (remaining s + 2) s).

(* ------------------------------------------------------------------ *)
(* take_separators_on_last_line *)
Definition take_separators_on_last_line (level : clevel) : pstate -> pstate := guard (fun s =>
  if negb (o_semicolon (cur_tt s)) then s
  else
    let s := p_emit KR lm0 s in
    let line_was_empty := at_start s in
    let s := push_ctx (mkCtx CT_Utility true P_never level) s in
    let s := take_until no_more_separators s in
    let s := if line_was_empty then finish_logical_line s else s in
    p_emit Kr lm0 (pop_ctx s)).

(* parse_exports (the op of the `exports` clause) *)
Definition parse_exports_op (s : pstate) : pstate :=
  match cur_tt s with
  | Some (RTT_Op OK_Comma) => parse_expression (next_token s)
  | Some (RTT_Op OK_LParen) => skip_pair s
  | Some (RTT_IdentifierOrKeyword (KK_Name | KK_Index) | RTT_Keyword (KK_Name | KK_Index)) =>
      parse_expression (next_token (consolidate_current_keyword s))
  | Some (RTT_IdentifierOrKeyword KK_Resident | RTT_Keyword KK_Resident) => next_token (consolidate_current_keyword s)
  | _ => next_token s
  end.

(* get_line_parent_of_current_token; None = unwrap on None *)
Definition line_parent_of_current (s : pstate) : option (nat * nat) :=
  match cur_index s with Some i => Some (cur_ref s, i) | None => None end.

(* ================================================================== *)
(* Part 2: the mutually recursive grammar, defunctionalised.
   `action` = the closures passed to do_with_context; `call` = the entry points.  Loops are tail
   calls to the same entry point (`C_structures`, `C_statement`, `C_stmt_list`, `C_parens_loop`,
   `C_anon_loop`); every nested call and every loop iteration takes one unit of fuel. *)
Inductive action :=
  | A_stmt_list (t : ctype)      (* |p| p.parse_statement_list_with_type(t) *)
  | A_structures                 (* |p| p.parse_structures() *)
  | A_block                      (* parse_block: |p| { p.parse_structures(); p.finish_logical_line() } *)
  | A_next_token                 (* |p| p.next_token() *)
  | A_routine                    (* |p| p.parse_routine() *)
  | A_asm.                       (* |p| p.parse_asm_instructions() *)
Inductive call :=
  | C_structures | C_statement | C_if_then | C_do (is_for : bool) | C_case_statement | C_variant_record
  | C_case_arm (parent : nat * nat) | C_comment_lines | C_import_clause
  | C_line_section (c : pctx)
  | C_stmt_block (c : pctx) (k : skind)                   (* parse_statement_block_with_kind *)
  | C_stmt_list (t : ctype) (opaque : bool) (p : cpred)   (* parse_statement_list_with_type_and_predicate *)
  | C_block (c : pctx)                                    (* parse_block *)
  | C_with_ctx (c : pctx) (a : action)                    (* do_with_context *)
  | C_parens | C_parens_loop | C_variant_fields | C_anon | C_anon_loop (parent : nat * nat)
  | C_routine | C_asm_block | C_begin_end (l : clevel)
  | C_top.                                                (* parse *)

(* the arms of parse_structures' match, before their guards *)
Inductive sarm :=
  | SA_directive | SA_comment | SA_program_head (k : KeywordKind) | SA_lbrack | SA_section (k : KeywordKind)
  | SA_begin | SA_end | SA_repeat | SA_try | SA_on | SA_do (is_for : bool) | SA_if | SA_else | SA_case | SA_uses
  | SA_contains | SA_exports | SA_class | SA_strict | SA_visibility | SA_decl (k : KeywordKind) | SA_property
  | SA_routine | SA_asm | SA_raise | SA_other.
Definition sarm_of (t : RawTokenType) : sarm :=
  match t with
  | RTT_CompilerDirective => SA_directive
  | RTT_Comment _ => SA_comment
  | RTT_Op OK_LBrack => SA_lbrack
  | RTT_Keyword k =>
      match k with
      | KK_Library | KK_Unit | KK_Program | KK_Package => SA_program_head k
      | KK_Interface | KK_Implementation | KK_Initialization | KK_Finalization => SA_section k
      | KK_Begin => SA_begin | KK_End => SA_end | KK_Repeat => SA_repeat | KK_Try => SA_try | KK_On => SA_on
      | KK_For => SA_do true | KK_While | KK_With => SA_do false
      | KK_If => SA_if | KK_Else => SA_else | KK_Case => SA_case | KK_Uses => SA_uses
      | KK_Contains | KK_Requires => SA_contains
      | KK_Exports => SA_exports | KK_Class => SA_class | KK_Strict => SA_strict
      | KK_Private | KK_Protected | KK_Public | KK_Published | KK_Automated => SA_visibility
      | KK_Property => SA_property
      | KK_Function | KK_Procedure | KK_Constructor | KK_Destructor | KK_Operator => SA_routine
      | KK_Asm => SA_asm | KK_Raise => SA_raise
      | _ => if KeywordKind_is_decl_section k then SA_decl k else SA_other
      end
  | RTT_IdentifierOrKeyword k =>
      match k with
      | KK_Package => SA_program_head k
      | KK_On => SA_on
      | KK_Contains | KK_Requires => SA_contains
      | KK_Strict => SA_strict
      | KK_Private | KK_Protected | KK_Public | KK_Published | KK_Automated => SA_visibility
      | _ => SA_other
      end
  | _ => SA_other
  end.

(* the arms of parse_statement's match, before their guards *)
Inductive starm :=
  | ST_struct_type | ST_of | ST_var | ST_lparen | ST_semicolon | ST_lt | ST_colon | ST_equal | ST_reference
  | ST_in | ST_to | ST_absolute | ST_assign | ST_routine | ST_begin | ST_label_cand | ST_other.
Definition starm_of (t : RawTokenType) : starm :=
  match t with
  | RTT_Keyword (KK_Class | KK_Interface | KK_DispInterface | KK_Record | KK_Object) => ST_struct_type
  | RTT_Keyword KK_Of => ST_of
  | RTT_Keyword (KK_Var _) => ST_var
  | RTT_Op OK_LParen => ST_lparen
  | RTT_Op OK_Semicolon => ST_semicolon
  | RTT_Op (OK_LessThan _) => ST_lt
  | RTT_Op OK_Colon => ST_colon
  | RTT_Op (OK_Equal _) => ST_equal
  | RTT_IdentifierOrKeyword KK_Reference => ST_reference
  | RTT_Keyword (KK_In IK_Op) => ST_in
  | RTT_Keyword KK_To => ST_to
  | RTT_IdentifierOrKeyword KK_Absolute => ST_absolute
  | RTT_Op OK_Assign => ST_assign
  | RTT_Keyword (KK_Function | KK_Procedure) => ST_routine
  | RTT_Keyword KK_Begin => ST_begin
  | RTT_Identifier | RTT_NumberLiteral _ | RTT_IdentifierOrKeyword _ => ST_label_cand
  | _ => ST_other
  end.

Definition ctx (t : ctype) (opaque : bool) (p : cpred) (l : clevel) : pctx := mkCtx t opaque p l.
Definition L (d : Z) : clevel := CL_Level d.
Definition o_routine_kw (t : option RawTokenType) : bool :=
  match t with Some (RTT_Keyword (KK_Function | KK_Procedure)) => true | _ => false end.

(* leaf-only pieces of arms *)
Definition comment_arm (is_directive : bool) (s : pstate) : pstate :=
  let s := next_token s in
  let s := if is_directive then set_line_type LLT_CompilerDirective s else s in
  if is_in_statement s then finish_logical_line s else make_unfinished_line s.
Definition program_head_arm (k : KeywordKind) (s : pstate) : pstate :=
  let s := match prev_tt s with
           | None =>
               let s := consolidate_current_keyword s in
               match k with
               | KK_Library => push_ctx (ctx CT_Library true P_never (L 0)) s
               | KK_Unit => push_ctx (ctx CT_Unit true P_never (L 0)) s
               | KK_Program => push_ctx (ctx CT_Program true P_never (L 0)) s
               | KK_Package => push_ctx (ctx CT_Package true P_never (L 0)) s
               | _ => s
               end
           | Some _ => s
           end in
  finish_logical_line (simple_op_until after_semicolon (keyword_consolidator is_portability) (next_token s)).
(* parse_statement, before the match: (state, continue with the match?) *)
Definition statement_prelude (s : pstate) : pstate * bool :=
  match last_ctx s with
  | None => (s, true)
  | Some c =>
      match ending_ctx s with
      | Some k => (update_statuses k s, false)
      | None =>
          if at_start s then
            match c_type c with
            | CT_Statement SK_Case => (set_line_type LLT_CaseArm s, true)
            | CT_LabelBlock | CT_TypeBlock | CT_DeclarationBlock | CT_VisibilityBlock => (set_line_type LLT_Declaration s, true)
            | CT_Statement SK_VariantRecord => (set_line_type LLT_VariantRecordCaseArm s, true)
            | _ => (s, true)
            end
          else (s, true)
      end
  end.
Definition is_label_ctx_excluded (s : pstate) : bool :=
  match last_ctype s with
  | Some (CT_DeclarationBlock | CT_VisibilityBlock | CT_Statement (SK_Case | SK_VariantRecord)
          | CT_VariantDeclarationBlock | CT_TypeDeclaration) => true
  | _ => false
  end.
Definition enum_op (s : pstate) : pstate :=
  next_token (match cur_tt s with
              | Some (RTT_Op (OK_Equal EK_Comp)) => set_current_token_type (RTT_Op (OK_Equal EK_Decl)) s
              | _ => s end).
Definition import_op (s : pstate) : pstate :=
  next_token (match cur_tt s with
              | Some (RTT_Keyword (KK_In _)) => set_current_token_type (RTT_Keyword (KK_In IK_Import)) s
              | _ => s end).

(* The arms of `run`, each as a definition over the recursive callback R (= `run f` for the
   remaining fuel f).  `run` below only dispatches. *)
Section Arms.
Variable R : call -> pstate -> pstate.
Definition stmt_block (t : ctype) (p : cpred) (l : clevel) (k : skind) : pstate -> pstate :=
  R (C_stmt_block (ctx t true p l) k).

Definition arm_with_ctx (cx : pctx) (a : action) (s : pstate) : pstate :=
  let par := clevel_parent (c_level cx) in
  let s := match par with
           | Some p => p_emit KC (mkLM (Some p) 0%N LLT_Unknown) s
           | None => finish_logical_line s
           end in
  let s := push_ctx cx s in
  let s := match a with
           | A_stmt_list t => R (C_stmt_list t false P_semicolon) s
           | A_structures => R C_structures s
           | A_block => finish_logical_line (R C_structures s)
           | A_next_token => next_token s
           | A_routine => R C_routine s
           | A_asm => parse_asm_instructions s
           end in
  let s := pop_ctx s in
  match par with Some _ => p_emit Kc lm0 s | None => s end.

Definition arm_block (cx : pctx) (s : pstate) : pstate :=
  R (C_with_ctx cx A_block) s.

Definition arm_stmt_block (cx : pctx) (k : skind) (s : pstate) : pstate :=
  R (C_with_ctx cx (A_stmt_list (CT_Statement k))) s.

Definition arm_stmt_list (t : ctype) (op : bool) (p : cpred) (s : pstate) : pstate :=
  let lvl := L 0 in
  let s := R (C_with_ctx (ctx t op p lvl) A_structures) s in
  let s := finish_logical_line s in
  let s := take_separators_on_last_line lvl s in
  if is_ending s || match cur_tt s with None => true | Some _ => false end then s
  else R (C_stmt_list t op p) s.

Definition arm_line_section (cx : pctx) (s : pstate) : pstate :=
  pop_ctx (R C_statement (push_ctx cx s)).

Definition arm_comment_lines (s : pstate) : pstate :=
  R (C_block (ctx CT_Utility true P_not_comment_or_directive (L 0))) s.

(* ---- parse_structures *)
Definition s_loop : pstate -> pstate := R C_structures.
Definition s_other (s : pstate) : pstate := s_loop (R C_statement s).

Definition sa_directive (s : pstate) : pstate :=
  match is_directive_before_next_token s with
  | None => fail (E_panic PS_dir_before_sub) s
  | Some false => s_loop (comment_arm true s)
  | Some true =>
      match is_directive_after_prev_token s with
      | None => fail (E_panic PS_dir_after_sub) s
      | Some true => s_loop (skip_token s)
      | Some false => s_loop (comment_arm true s)
      end
  end.

Definition sa_comment (s : pstate) : pstate :=
  s_loop (comment_arm false s).

Definition sa_program_head (k : KeywordKind) (s : pstate) : pstate :=
  s_loop (program_head_arm k s).

Definition sa_lbrack (s : pstate) : pstate :=
  if at_start s then s_loop (make_unfinished_line (set_line_type LLT_Attribute (skip_pair s)))
  else s_other s.

Definition sa_section (k : KeywordKind) (s : pstate) : pstate :=
  let s := finish_logical_line (next_token (finish_logical_line s)) in
  s_loop (match k with
        | KK_Interface => R (C_block (ctx CT_Interface true P_section_headings (L 0))) s
        | KK_Implementation => R (C_block (ctx CT_Implementation true P_section_headings (L 0))) s
        | KK_Initialization => stmt_block (CT_StatementBlock BK_Initialization) P_section_headings (L 1) SK_Normal s
        | KK_Finalization => stmt_block (CT_StatementBlock BK_Finalization) P_section_headings (L 1) SK_Normal s
        | _ => s
        end).

Definition sa_begin (s : pstate) : pstate :=
  let s := stmt_block (CT_StatementBlock BK_Begin) P_end (L 1) SK_Normal (next_token s) in
  let s := if o_kw_end (cur_tt s) then next_token s else s in
  let s := if o_dot (cur_tt s) then next_token s else take_until no_more_separators s in
  s_loop (finish_logical_line s).

Definition sa_end (s : pstate) : pstate :=
  let s := next_token s in
  s_loop (if o_dot (cur_tt s) then next_token s else s).

Definition sa_repeat (s : pstate) : pstate :=
  let s := stmt_block (CT_StatementBlock BK_Repeat) P_until (L 1) SK_Normal (next_token s) in
  let s := next_token s in
  let s := push_ctx (ctx CT_BlockClause false P_never (L 0)) s in
  let s := pop_ctx (R C_statement s) in
  s_loop (finish_logical_line (take_until no_more_separators s)).

Definition sa_try (s : pstate) : pstate :=
  let s := stmt_block (CT_StatementBlock BK_Try) P_except_finally (L 1) SK_Normal (next_token s) in
  let '(ct, sk) := match cur_tt s with
                   | Some (RTT_Keyword KK_Except) => (CT_StatementBlock BK_Except, SK_Except)
                   | _ => (CT_StatementBlock BK_Finally, SK_Normal)
                   end in
  let s := stmt_block ct P_else_end (L 1) sk (next_token s) in
  let s := if o_kw_else (cur_tt s)
           then stmt_block (CT_StatementBlock BK_Else) P_end (L 1) SK_Normal (next_token s) else s in
  s_loop (finish_logical_line (take_until no_more_separators (next_token s))).

Definition sa_on (s : pstate) : pstate :=
  match last_ctype s with
  | Some (CT_Statement SK_Except) => s_loop (R (C_do false) (consolidate_current_keyword s))
  | _ => s_other s
  end.

Definition sa_do (is_for : bool) (s : pstate) : pstate :=
  s_loop (R (C_do is_for) s).

Definition sa_if (s : pstate) : pstate :=
  s_loop (R C_if_then s).

Definition sa_else (s : pstate) : pstate :=
  s_loop (next_token s).

Definition sa_case (s : pstate) : pstate :=
  if is_in_type_decl s then s_loop (R C_variant_record s) else s_loop (R C_case_statement s).

Definition sa_uses (s : pstate) : pstate :=
  s_loop (R C_import_clause s).

Definition sa_contains (s : pstate) : pstate :=
  match last_ctype s with
  | Some CT_Package => s_loop (R C_import_clause s)
  | _ => s_other s
  end.

Definition sa_exports (s : pstate) : pstate :=
  let s := finish_logical_line (next_token (finish_logical_line s)) in
  let s := push_ctx (ctx CT_ImportExport true P_never (L 1)) s in
  let s := R C_comment_lines s in
  let s := parse_expression s in
  let s := simple_op_until after_semicolon parse_exports_op s in
  let s := finish_logical_line (set_line_type LLT_ExportClause s) in
  s_loop (pop_ctx s).

Definition sa_class (s : pstate) : pstate :=
  let s := next_token s in
  s_loop (match cur_kk s with
        | Some KK_Operator => consolidate_class_op_in (consolidate_current_keyword s)
        | _ => s
        end).

Definition sa_strict (s : pstate) : pstate :=
  s_loop (next_token s).

Definition sa_visibility (s : pstate) : pstate :=
  if is_in_type_decl s then
    let s := match prev_tt s with
             | Some (RTT_IdentifierOrKeyword KK_Strict) => consolidate_prev_keyword s
             | _ => s end in
    let s := finish_logical_line (next_token (consolidate_current_keyword s)) in
    s_loop (R (C_block (ctx CT_VisibilityBlock true P_visibility_block_ending (L 1))) s)
  else s_other s.

Definition sa_decl (k : KeywordKind) (s : pstate) : pstate :=
  match last_ctype s with
  | Some (CT_Statement _ | CT_StatementBlock _) =>
      s_loop (next_token (set_current_decl_kind DK_Inline (set_line_type LLT_InlineDeclaration s)))
  | _ =>
      let s := next_token (set_current_decl_kind DK_Section s) in
      let reduce := match last_ctype s with Some CT_SubRoutine => true | _ => false end in
      let s := if reduce then push_ctx (ctx CT_SubRoutine true P_never (L (-1))) s else s in
      let s := finish_logical_line s in
      let ct := match k with KK_Type => CT_TypeBlock | _ => CT_DeclarationBlock end in
      let s := R (C_block (ctx ct true P_declaration_section (L 1))) s in
      s_loop (if reduce then pop_ctx s else s)
  end.

Definition sa_property (s : pstate) : pstate :=
  s_loop (parse_property_declaration s).

Definition sa_routine (s : pstate) : pstate :=
  s_loop (R C_routine s).

Definition sa_asm (s : pstate) : pstate :=
  s_loop (R C_asm_block s).

Definition sa_raise (s : pstate) : pstate :=
  let s := parse_expression (next_token s) in
  s_loop (match cur_kk s with
        | Some KK_At => parse_expression (consolidate_current_keyword s)
        | _ => s
        end).

Definition sa_other (s : pstate) : pstate :=
  s_other s.

Definition arm_structures (s : pstate) : pstate :=
  match cur_tt s with
  | None => s
  | Some tk =>
      match ending_ctx s with
      | Some k => update_statuses k s
      | None =>
      match sarm_of tk with
      | SA_directive => sa_directive s
      | SA_comment => sa_comment s
      | SA_program_head k => sa_program_head k s
      | SA_lbrack => sa_lbrack s
      | SA_section k => sa_section k s
      | SA_begin => sa_begin s
      | SA_end => sa_end s
      | SA_repeat => sa_repeat s
      | SA_try => sa_try s
      | SA_on => sa_on s
      | SA_do is_for => sa_do is_for s
      | SA_if => sa_if s
      | SA_else => sa_else s
      | SA_case => sa_case s
      | SA_uses => sa_uses s
      | SA_contains => sa_contains s
      | SA_exports => sa_exports s
      | SA_class => sa_class s
      | SA_strict => sa_strict s
      | SA_visibility => sa_visibility s
      | SA_decl k => sa_decl k s
      | SA_property => sa_property s
      | SA_routine => sa_routine s
      | SA_asm => sa_asm s
      | SA_raise => sa_raise s
      | SA_other => sa_other s
      end
      end
  end.

(* ---- parse_statement *)
Definition t_loop : pstate -> pstate := R C_statement.
Definition t_other (s : pstate) : pstate := t_loop (next_token s).
Definition label_or_other (s : pstate) : pstate :=
  if at_start s && o_colon (next_tt s) && negb (is_label_ctx_excluded s)
  then finish_logical_line (next_token (next_token s))
  else t_other s.

(* the body of a structured type: after `class`/`record`/... and its optional parents *)
Definition st_struct_type_body (s : pstate) : pstate :=
  let s := finish_logical_line s in
  let s := push_ctx (ctx CT_TypeDeclaration true P_end (L 0)) s in
  let s := push_ctx (ctx CT_VisibilityBlock true P_visibility_block_ending (L 1)) s in
  let s := if match cur_tt s, next_tt s with
              | Some (RTT_Op OK_LBrack), Some (RTT_TextLiteral _) => true
              | _, _ => false end
           then
             let s := take_until (fun s => match cur_tt s with Some (RTT_Op OK_RBrack) => true | _ => false end) (next_token s) in
             finish_logical_line (set_line_type LLT_Guid (next_token s))
           else s in
  let s := pop_ctx (R C_structures s) in
  let s := pop_ctx (R C_structures s) in
  let s := next_token (finish_logical_line s) in
  let s := simple_op_until after_semicolon
             (keyword_consolidator (fun k => is_portability k || match k with KK_Align => true | _ => false end)) s in
  finish_logical_line (take_until no_more_separators s).

Definition st_struct_type (s : pstate) : pstate :=
  let s := next_token s in
  let s := match cur_kk s with
           | Some (KK_Abstract | KK_Sealed) =>
               next_token (if o_colon (next_tt s) then s else consolidate_current_keyword s)
           | _ => s end in
  let s := if match cur_kk s, next_tt s with
              | Some KK_Helper, Some (RTT_Keyword KK_For | RTT_Op OK_LParen) => true
              | _, _ => false end
           then
             let s := next_token (consolidate_current_keyword s) in
             let s := if o_lparen (cur_tt s) then R C_parens s else s in
             let s := match cur_kk s with Some KK_For => next_token s | _ => s end in
             parse_expression s
           else if o_lparen (cur_tt s) then R C_parens s else s in
  match cur_tt s with
  | Some (RTT_Keyword KK_Of) => next_token s
  | Some (RTT_Op OK_Semicolon) => s
  | _ => st_struct_type_body s
  end.

Definition st_of (s : pstate) : pstate :=
  match last_ctype s with
  | Some CT_BlockClause => pop_ctx s
  | _ =>
      let s := next_token s in
      t_loop (match cur_tt s with
            | Some (RTT_Keyword (KK_Const _)) => next_token (set_current_token_type (RTT_Keyword (KK_Const DK_Other)) s)
            | _ => s
            end)
  end.

Definition st_var (s : pstate) : pstate :=
  t_loop (next_token (match prev_tt s with
                    | Some (RTT_Keyword KK_For) => set_current_decl_kind DK_Inline s
                    | _ => s end)).

Definition st_lparen (s : pstate) : pstate :=
  if o_colon (prev_tt s) && match last_ctype s with Some (CT_Statement SK_VariantRecord) => true | _ => false end
  then t_loop (R C_variant_fields s)
  else t_loop (R C_parens s).

Definition st_semicolon (s : pstate) : pstate :=
  finish_logical_line (take_until no_more_separators s).

Definition st_lt (s : pstate) : pstate :=
  match last_ctype s with
  | Some CT_TypeBlock => t_loop (skip_pair s)
  | _ => t_other s
  end.

Definition st_colon (s : pstate) : pstate :=
  match line_parent_of_current s with
  | None => fail (E_panic PS_line_parent_unwrap) s
  | Some parent =>
      let s := next_token s in
      if llt_is (cur_type s) LLT_CaseArm then
        t_loop (consolidate_current_caret_to_type (R (C_case_arm parent) (finish_logical_line s)))
      else
        match last_ctype s with
        | Some (CT_VisibilityBlock | CT_DeclarationBlock | CT_TypeDeclaration) =>
            match cur_tt s with
            | Some (RTT_Keyword KK_Class) => t_loop (consolidate_current_caret_to_type (next_token s))
            | Some (RTT_Keyword (KK_Function | KK_Procedure)) => finish_logical_line (parse_routine_header s)
            | _ => t_loop (consolidate_current_caret_to_type s)
            end
        | _ => t_loop (consolidate_current_caret_to_type s)
        end
  end.

Definition st_equal (s : pstate) : pstate :=
  let s := if match last_ctype s with
              | Some (CT_DeclarationBlock | CT_TypeBlock | CT_Statement _) => true
              | _ => false end
              && negb (existsb (fun t => match t with RTT_Op (OK_Equal EK_Decl | OK_Assign) => true | _ => false end)
                               (cur_line_tts s))
           then set_current_token_type (RTT_Op (OK_Equal EK_Decl)) s else s in
  let s := next_token s in
  match last_ctype s with
  | Some CT_TypeBlock =>
      match cur_tt s with
      | Some (RTT_Keyword KK_Type) =>
          let s := next_token s in
          t_loop (if o_kw_of (cur_tt s) then next_token s else s)
      | Some (RTT_Op (OK_Caret _)) => t_loop (next_token (consolidate_current_caret_to_type s))
      | Some (RTT_Keyword (KK_Function | KK_Procedure)) => finish_logical_line (parse_routine_header s)
      | Some (RTT_Op OK_LParen) =>
          let p0 := ps_paren s in
          t_loop (simple_op_until (outside_parens p0) enum_op (next_token s))
      | _ => t_loop s
      end
  | _ => t_loop s
  end.

Definition st_reference (s : pstate) : pstate :=
  t_loop (next_token (match next_tt s with
                    | Some (RTT_Keyword KK_To) => consolidate_current_keyword s
                    | _ => s end)).

Definition st_in (s : pstate) : pstate :=
  t_loop (next_token
          (if llt_is (cur_type s) LLT_ForLoop
              && negb (existsb (fun t => match t with RTT_Keyword (KK_In IK_ForLoop) => true | _ => false end)
                               (cur_line_tts s))
           then set_current_token_type (RTT_Keyword (KK_In IK_ForLoop)) s else s)).

Definition st_to (s : pstate) : pstate :=
  let s := next_token s in
  if o_routine_kw (cur_tt s) then finish_logical_line (parse_routine_header s) else t_loop s.

Definition st_absolute (s : pstate) : pstate :=
  match prev_tt s with
  | Some (RTT_Identifier | RTT_IdentifierOrKeyword _) => t_loop (next_token (consolidate_current_keyword s))
  | _ => label_or_other s
  end.

Definition st_assign (s : pstate) : pstate :=
  let s := next_token s in
  t_loop (if llt_is (cur_type s) LLT_Unknown then set_line_type LLT_Assignment s else s).

Definition st_routine (s : pstate) : pstate :=
  t_loop (R C_anon s).

Definition st_begin (s : pstate) : pstate :=
  let s := stmt_block (CT_StatementBlock BK_Begin) P_end (L 1) SK_Normal (next_token s) in
  t_loop (finish_logical_line (take_until no_more_separators (next_token s))).

Definition st_label_cand (s : pstate) : pstate :=
  label_or_other s.

Definition st_other (s : pstate) : pstate :=
  t_other s.

Definition arm_statement (s : pstate) : pstate :=
  match cur_tt s with
  | None => s
  | Some tk =>
      let (s, go) := statement_prelude s in
      if negb go then s else
      match starm_of tk with
      | ST_struct_type => st_struct_type s
      | ST_of => st_of s
      | ST_var => st_var s
      | ST_lparen => st_lparen s
      | ST_semicolon => st_semicolon s
      | ST_lt => st_lt s
      | ST_colon => st_colon s
      | ST_equal => st_equal s
      | ST_reference => st_reference s
      | ST_in => st_in s
      | ST_to => st_to s
      | ST_absolute => st_absolute s
      | ST_assign => st_assign s
      | ST_routine => st_routine s
      | ST_begin => st_begin s
      | ST_label_cand => st_label_cand s
      | ST_other => st_other s
      end
  end.

Definition arm_if_then (s : pstate) : pstate :=
  let s := R (C_line_section (ctx CT_Utility true P_then (L 0))) (next_token s) in
  match cur_kk s with
  | Some KK_Then =>
      match line_parent_of_current s with
      | None => fail (E_panic PS_line_parent_unwrap) s
      | Some parent =>
          let s := next_token s in
          let lvl := CL_Parent parent 1%N in
          let s := R (C_block (ctx (CT_Statement SK_Normal) false P_else lvl)) s in
          let else_branch :=
            match last_is_ended s, cur_kk s with
            | Some false, Some KK_Else => true
            | _, _ => false
            end in
          if else_branch then
            match line_parent_of_current s with
            | None => fail (E_panic PS_line_parent_unwrap) s
            | Some parent2 =>
                let s := next_token s in
                let lvl2 := CL_Parent parent2 1%N in
                let s := R (C_block (ctx (CT_Statement SK_Normal) false P_never lvl2)) s in
                finish_logical_line (take_separators_on_last_line lvl2 s)
            end
          else finish_logical_line (take_separators_on_last_line lvl s)
      end
  | _ => s
  end.

Definition arm_do (is_for : bool) (s : pstate) : pstate :=
  let s := next_token s in
  let s := set_line_type (if is_for then LLT_ForLoop else LLT_Unknown) s in
  let s := R (C_line_section (ctx CT_Utility true P_kw_do (L 0))) s in
  match cur_kk s with
  | Some KK_Do =>
      match line_parent_of_current s with
      | None => fail (E_panic PS_line_parent_unwrap) s
      | Some parent =>
          let s := next_token s in
          let lvl := CL_Parent parent 1%N in
          let s := R (C_block (ctx (CT_Statement SK_Normal) false P_never lvl)) s in
          finish_logical_line (take_separators_on_last_line lvl s)
      end
  | _ => s
  end.

Definition arm_case_statement (s : pstate) : pstate :=
  let s := set_line_type LLT_CaseHeader (next_token s) in
  let s := R (C_line_section (ctx CT_Utility true P_of (L 0))) s in
  if o_kw_of (cur_tt s) then
    let s := finish_logical_line (next_token s) in
    let s := stmt_block (CT_Statement SK_Case) P_else_end (L 1) SK_Case s in
    let s := if o_kw_else (cur_tt s)
             then stmt_block (CT_StatementBlock BK_Else) P_end (L 1) SK_Normal (finish_logical_line (next_token s))
             else s in
    if o_kw_end (cur_tt s) then next_token s else s
  else s.

Definition arm_variant_record (s : pstate) : pstate :=
  let delta := match last_ctx s with
               | Some c0 => match c_level c0 with CL_Parent _ _ => 0%Z | CL_Level _ => (-1)%Z end
               | None => (-1)%Z
               end in
  let s := push_ctx (ctx CT_VariantRecord false P_never (L delta)) s in
  let s := set_line_type LLT_CaseHeader (next_token s) in
  let s := R (C_line_section (ctx CT_Utility true P_of (L 0))) s in
  if o_kw_of (cur_tt s) then
    let s := finish_logical_line (next_token s) in
    let s := R (C_stmt_block (ctx CT_VariantDeclarationBlock false P_rparen (L 1)) SK_VariantRecord) s in
    pop_ctx s
  else pop_ctx s      (* since the repair of F39 the early return pops the VariantRecord context too *).

Definition arm_case_arm (parent : nat * nat) (s : pstate) : pstate :=
  let lvl := CL_Parent parent 1%N in
  let s := R (C_block (ctx (CT_Statement SK_Normal) false P_never lvl)) s in
  finish_logical_line (take_separators_on_last_line lvl s).

Definition arm_import_clause (s : pstate) : pstate :=
  let s := finish_logical_line (next_token (consolidate_current_keyword (finish_logical_line s))) in
  let s := push_ctx (ctx CT_ImportExport true P_never (L 1)) s in
  let s := R C_comment_lines s in
  let s := simple_op_until after_semicolon import_op s in
  pop_ctx (finish_logical_line (set_line_type LLT_ImportClause s)).

Definition arm_parens (s : pstate) : pstate :=
  R C_parens_loop (next_token s).

Definition arm_parens_loop (s : pstate) : pstate :=
  match cur_tt s with
  | None => s
  | Some (RTT_Op OK_LParen) => R C_parens_loop (R C_parens s)
  | Some (RTT_Op OK_RParen) => next_token s
  | Some (RTT_Keyword (KK_Function | KK_Procedure)) => R C_parens_loop (R C_anon s)
  | Some _ => R C_parens_loop (next_token s)
  end.

Definition arm_variant_fields (s : pstate) : pstate :=
  match line_parent_of_current s with
  | None => fail (E_panic PS_line_parent_unwrap) s
  | Some parent =>
      let s := R (C_block (ctx CT_DeclarationBlock true P_rparen (CL_Parent parent 1%N))) (next_token s) in
      if o_rparen (cur_tt s) then next_token s else s
  end.

Definition arm_anon (s : pstate) : pstate :=
  match line_parent_of_current s with
  | None => fail (E_panic PS_anon_routine_unwrap) s
  | Some parent => R (C_anon_loop parent) (next_token s)
  end.

Definition arm_anon_loop (parent : nat * nat) (s : pstate) : pstate :=
  let loop := R (C_anon_loop parent) in
  match cur_tt s with
  | None => s
  | Some (RTT_Op OK_LParen) => loop (parse_parameter_list s)
  | Some (RTT_Op (OK_Semicolon | OK_RParen | OK_RBrack)) => s
  | Some (RTT_Keyword k) =>
      if KeywordKind_is_decl_section k then
        let ct := match k with KK_Type => CT_TypeBlock | KK_Label => CT_LabelBlock | _ => CT_DeclarationBlock end in
        let s := set_current_decl_kind DK_AnonSection s in
        let s := R (C_with_ctx (ctx ct true P_never (CL_Parent parent 0%N)) A_next_token) s in
        loop (R (C_block (ctx ct true P_local_declaration_section (CL_Parent parent 1%N))) s)
      else match k with
           | KK_Begin =>
               match line_parent_of_current s with
               | None => fail (E_panic PS_line_parent_unwrap) s
               | Some p => R (C_begin_end (CL_Parent p 1%N)) s
               end
           | KK_Procedure | KK_Function =>
               loop (R (C_with_ctx (ctx CT_SubRoutine true P_never (CL_Parent parent 1%N)) A_routine) s)
           | _ => loop (next_token s)
           end
  | Some _ => loop (next_token s)
  end.

Definition arm_routine (s : pstate) : pstate :=
  let s := parse_routine_header (set_line_type LLT_RoutineHeader s) in
  let fwd := existsb (fun t => match t with RTT_Keyword (KK_Forward | KK_External) => true | _ => false end) (cur_line_tts s)
             || any_ctype (fun t => match t with CT_Interface | CT_TypeDeclaration => true | _ => false end) s in
  let s := finish_logical_line s in
  if fwd then s
  else
    let s := R (C_block (ctx CT_SubRoutine true P_begin_asm (L 1))) s in
    match cur_tt s with
    | Some (RTT_Keyword KK_Asm) => R C_asm_block s
    | Some (RTT_Keyword KK_Begin) =>
        finish_logical_line (take_until no_more_separators (R (C_begin_end (L 1)) s))
    | _ => s
    end.

Definition arm_asm_block (s : pstate) : pstate :=
  let s := finish_logical_line (next_token s) in
  let s := R (C_with_ctx (ctx (CT_StatementBlock BK_Asm) true P_never (L 1)) A_asm) s in
  finish_logical_line (take_until no_more_separators (next_token s)).

Definition arm_begin_end (lvl : clevel) (s : pstate) : pstate :=
  let s := stmt_block (CT_StatementBlock BK_Begin) P_end lvl SK_Normal (next_token s) in
  next_token s.

Definition arm_top (s : pstate) : pstate :=
  let s := R (C_stmt_list CT_TopLevelStatement true P_top_semicolon) s in
  let s := next_token (finish_logical_line s) in
  finish_logical_line (set_line_type LLT_Eof s).

End Arms.

(* the one recursive function: every nested call and loop iteration goes through here and takes one
   unit of fuel *)
Fixpoint run (fuel : nat) (c : call) (s : pstate) : pstate :=
  if has_err s then s else
  match fuel with
  | O => fail E_fuel s
  | S f =>
    match c with
    | C_with_ctx cx a => arm_with_ctx (run f) cx a s
    | C_block cx => arm_block (run f) cx s
    | C_stmt_block cx k => arm_stmt_block (run f) cx k s
    | C_stmt_list t op p => arm_stmt_list (run f) t op p s
    | C_line_section cx => arm_line_section (run f) cx s
    | C_comment_lines => arm_comment_lines (run f) s
    | C_structures => arm_structures (run f) s
    | C_statement => arm_statement (run f) s
    | C_if_then => arm_if_then (run f) s
    | C_do is_for => arm_do (run f) is_for s
    | C_case_statement => arm_case_statement (run f) s
    | C_variant_record => arm_variant_record (run f) s
    | C_case_arm parent => arm_case_arm (run f) parent s
    | C_import_clause => arm_import_clause (run f) s
    | C_parens => arm_parens (run f) s
    | C_parens_loop => arm_parens_loop (run f) s
    | C_variant_fields => arm_variant_fields (run f) s
    | C_anon => arm_anon (run f) s
    | C_anon_loop parent => arm_anon_loop (run f) parent s
    | C_routine => arm_routine (run f) s
    | C_asm_block => arm_asm_block (run f) s
    | C_begin_end lvl => arm_begin_end (run f) lvl s
    | C_top => arm_top (run f) s
    end
  end.

Definition run_fuel : nat := 64 * (length pass + 4).
(* InternalDelphiLogicalLineParser::new(..).parse() *)
Definition parse_pass (toks : list RawTokenType) (attr : list nat) : pstate :=
  run run_fuel C_top (ps_init toks attr).

(* the LocalLogicalLines of the pass *)
Definition pass_lines (s : pstate) : list lline :=
  map (fun p => mkLine (lm_type (snd p)) (lm_level (snd p)) (lm_parent (snd p)) (fst p))
      (combine (k_lines (kst s)) (metas s)).
Definition pass_events (s : pstate) : list kev := rev (kc_evs (ps_core s)).

End Core.

(* ================================================================== *)
(* Part 3: parse_file *)
Definition parent_eqb (a b : option (nat * nat)) : bool :=
  match a, b with
  | None, None => true
  | Some (x1, y1), Some (x2, y2) => Nat.eqb x1 x2 && Nat.eqb y1 y2
  | _, _ => false
  end.
(* derived Hash/Eq of LocalLogicalLine: all four fields *)
Definition lline_eqb (a b : lline) : bool :=
  LogicalLineType_eqb (ll_type a) (ll_type b) && N.eqb (ll_level a) (ll_level b)
  && parent_eqb (ll_parent a) (ll_parent b) && nat_list_eqb (ll_toks a) (ll_toks b).
Fixpoint index_of_line (l : lline) (acc : list lline) (i : nat) : option nat :=
  match acc with
  | [] => None
  | a :: r => if lline_eqb l a then Some i else index_of_line l r (S i)
  end.
(* consolidate_pass_lines; `acc` = the FxHashMap as the list of its keys in insertion order (value =
   position); mapped_line_indices with usize::MAX as None *)
Definition consolidate_step (st : list lline * list (option nat)) (line : lline) : list lline * list (option nat) :=
  let (acc, mapped) := st in
  match ll_toks line with
  | [] => (acc, mapped ++ [None])
  | _ :: _ =>
      let parent := match ll_parent line with
                    | Some (pl, pt) => match nth_error mapped pl with Some (Some li) => Some (li, pt) | _ => None end
                    | None => None
                    end in
      let line' := mkLine (ll_type line) (ll_level line) parent (ll_toks line) in
      match index_of_line line' acc 0 with
      | Some i => (acc, mapped ++ [Some i])
      | None => (acc ++ [line'], mapped ++ [Some (length acc)])
      end
  end.
Definition consolidate_pass_lines (acc : list lline) (pl : list lline) : list lline :=
  fst (fold_left consolidate_step pl (acc, [])).

Fixpoint directive_lines (toks : list RawTokenType) (i : nat) (attr : list nat) (level : N) : list lline :=
  match toks with
  | [] => []
  | t :: r =>
      if existsb (Nat.eqb i) attr then directive_lines r (S i) attr level
      else match t with
           | RTT_CompilerDirective => mkLine LLT_CompilerDirective level None [i] :: directive_lines r (S i) attr level
           | RTT_ConditionalDirective k =>
               if ConditionalDirectiveKind_is_if k then
                 mkLine LLT_ConditionalDirective level None [i] :: directive_lines r (S i) attr (level + 1)%N
               else if ConditionalDirectiveKind_is_end k then
                 mkLine LLT_ConditionalDirective (N.pred level) None [i] :: directive_lines r (S i) attr (N.pred level)
               else if ConditionalDirectiveKind_is_else k then
                 mkLine LLT_ConditionalDirective (N.pred level) None [i] :: directive_lines r (S i) attr level
               else directive_lines r (S i) attr level
           | _ => directive_lines r (S i) attr level
           end
  end.

Definition cement (t : RawTokenType) : RawTokenType :=
  match t with RTT_IdentifierOrKeyword _ => RTT_Identifier | _ => t end.

Record pass_result := mkPR { pr_events : list kev; pr_lines : list lline }.
Record presult := mkRes {
  r_toks : list RawTokenType;      (* the raw token types after all passes *)
  r_lines : list lline;            (* the final logical lines *)
  r_passes : list pass_result;     (* per pass: event log and LocalLogicalLines *)
  r_err : option perr }.

Fixpoint parse_passes (wsnl : list bool) (passes : list (list nat)) (toks : list RawTokenType) (attr : list nat)
         (acc : list lline) (log : list pass_result) : presult :=
  match passes with
  | [] =>
      let acc := consolidate_pass_lines acc (directive_lines toks 0 attr 0%N) in
      mkRes toks acc (rev log) None
  | pass :: rest =>
      let s := parse_pass pass wsnl toks attr in
      let pl := pass_lines pass s in
      let log := mkPR (pass_events pass s) pl :: log in
      match ps_err pass s with
      | Some e => mkRes (ps_toks pass s) acc (rev log) (Some e)
      | None =>
          let toks := fold_left (fun ts p => upd_nth p cement ts) pass (ps_toks pass s) in
          parse_passes wsnl rest toks (ps_attr pass s) (consolidate_pass_lines acc pl) log
      end
  end.

(* parse_file with the passes given *)
Definition parse_file_with (toks : list RawTokenType) (wsnl : list bool) (passes : list (list nat)) : presult :=
  parse_passes wsnl passes toks [] [] [].
(* parse_file, closed: the passes computed by the DirectiveTree model *)
Definition parse_file_model (toks : list RawTokenType) (wsnl : list bool) : presult :=
  parse_file_with toks wsnl (all_passes toks).
(* DelphiLogicalLineParser::parse: consolidated token types *)
Definition parsed_token_types (r : presult) : list TokenType := map tt_of_raw (r_toks r).
