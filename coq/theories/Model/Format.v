(* Model/Format.v — core/src/formatter.rs: Formatter::format_into_buf, instantiated with the stages that
   front-end/src/lib.rs: make_formatter registers, as ONE total function from the input bytes and the
   configuration to the output bytes: the composition of the per-stage models.

   The composition is a fold over the GENERATED stage list (Gen/Pipeline.v: `pipeline`): every stage is
   recognised by its builder method and name (`classify`), and applied to a state that mirrors the data
   format_into_buf holds at that point:

     S_input   the input text
     S_raw     Vec<RawToken>                            after the lexer
     S_parsed  Vec<Token>, Vec<LogicalLine>, TokenMarker  after the parser; token/lines consolidators and
                                                          token ignorers act here
     S_fmt     FormattedTokens, the lines               after `FormattedTokens::new_from_tokens`; formatters act here
     S_out     the output buffer                        after the reconstructor

   What format_into_buf does BETWEEN the registered stages is in `enter_fmt`: the voiding of the lines all of
   whose tokens are ignored, `delete_marked_tokens` (no TokenRemover is registered: the identity) and
   `FormattedTokens::new_from_tokens`.  The typestate builder of formatter.rs only accepts the stages in the
   order lexer, parser, consolidators, ignorers, removers, formatters, reconstructor, so the registration
   order is the execution order; a stage that arrives in a state it cannot act on is an `FE_shape` error
   (such a `make_formatter` would not compile).  Cursors are left out.

   No stage is re-modelled here.  The conversions between the stage models' representations are:
     seg (bytes, bytes, RawTokenType)  ->  RawTokenType list + "leading blanks contain CR/LF" list   (parser input)
     seg + final RawTokenType          ->  token (tt_of_raw: `RawToken::into`)
     lline                             ->  (type, tokens)                                           (ignore marks)
     fconfig                           ->  rsettings, wsettings  (the two `From<&FormattingConfig>` impls)
   `char::is_alphanumeric` stays a parameter (`alnum`), as in Rewriters.v. *)
From Coq Require Import String.
From PasfmtVerif Require Export Gen.Pipeline Model.Token Model.Lines.
From PasfmtVerif Require Export Model.Lexer Model.ParserGrammar Model.Generics Model.LineConsolidators Model.Toggle
  Model.FmtData Model.Spacing Model.Rewriters Model.WrapFormat Model.Reconstruct.

(* front-end/src/lib.rs: FormattingConfig (without `encoding`, which the file layer reads).
   wrap_column : u32, tab_width / continuation_indents : u8 *)
Record fconfig := mkCfg {
  c_wrap : N; c_begin_always : bool; c_fms : bool;
  c_tabs : bool; c_tab_width : N; c_cont : N; c_crlf : bool }.

Definition cfg_in_range (c : fconfig) : bool :=
  (c_wrap c <? 4294967296) && (c_tab_width c <? 256) && (c_cont c <? 256).

(* From<&FormattingConfig> for ReconstructionSettings / OptimisingLineFormatterSettings *)
Definition cfg_rs (c : fconfig) : rsettings := rs_of_config (c_crlf c) (c_tabs c) (c_tab_width c) (c_cont c).
Definition cfg_iteration_max : N := 20000.
Definition cfg_ws (c : fconfig) : wsettings := wsettings_of (cfg_rs c) (c_wrap c) cfg_iteration_max (c_begin_always c).

(* ------------------------------------------------------------------ *)
(* the stages the composition knows *)
Inductive kstage :=
  | K_Lexer | K_Parser | K_Generics | K_CondDir | K_Deindent | K_Toggler | K_IgnoreAsm
  | K_Spacing | K_Lower | K_Comment | K_EofNewline | K_Wrap | K_Recon.

Definition classify (s : stage) : option kstage :=
  let n := st_name s in
  match st_method s with
  | SLexer => if String.eqb n "DelphiLexer" then Some K_Lexer else None
  | SParser => if String.eqb n "DelphiLogicalLineParser" then Some K_Parser else None
  | STokenConsolidator => if String.eqb n "DistinguishGenericTypeParamsConsolidator" then Some K_Generics else None
  | SLinesConsolidator =>
      if String.eqb n "ConditionalDirectiveConsolidator" then Some K_CondDir
      else if String.eqb n "DeindentPackageDirectives" then Some K_Deindent else None
  | STokenIgnorer =>
      if String.eqb n "FormattingToggler" then Some K_Toggler
      else if String.eqb n "IgnoreAsmIstructions" then Some K_IgnoreAsm else None
  | SFileFormatter =>
      if String.eqb n "TokenSpacing" then Some K_Spacing
      else if String.eqb n "LowercaseKeywords" then Some K_Lower
      else if String.eqb n "CommentFormatter" then Some K_Comment
      else if String.eqb n "OptimisingLineFormatter" then Some K_Wrap else None
  | SLineFormatter =>
      if String.eqb n "FormatterSelector" && String.eqb (st_detail s) "Eof=EofNewline" then Some K_EofNewline else None
  | SReconstructor => if String.eqb n "DelphiLogicalLinesReconstructor" then Some K_Recon else None
  | _ => None
  end.

Fixpoint classify_all (l : list stage) : option (list kstage) :=
  match l with
  | [] => Some []
  | s :: r => match classify s, classify_all r with Some k, Some ks => Some (k :: ks) | _, _ => None end
  end.

(* make_formatter's stages, in registration order *)
Definition make_formatter_kinds : list kstage :=
  [K_Lexer; K_Parser; K_Generics; K_CondDir; K_Deindent; K_Toggler; K_IgnoreAsm;
   K_Spacing; K_Lower; K_Comment; K_EofNewline; K_Wrap; K_Recon].

(* ------------------------------------------------------------------ *)
(* errors: every one names the stage model's explicit error value that was hit *)
Inductive ferr :=
  | FE_lex_fuel                  (* Lexer.lex: out of fuel (LexerProofs: unreachable) *)
  | FE_parse (e : perr)          (* ParserGrammar: E_fuel or a Rust panic site *)
  | FE_generics_fuel | FE_generics_panic   (* Generics.generics_run (GenericsProofs.generics_total: unreachable) *)
  | FE_conddir_underflow         (* LineConsolidators.expand_line_chk: usize subtraction on a decreasing line *)
  | FE_wrap_fuel                 (* WrapFormat.olf_model: main-loop or depth fuel *)
  | FE_unknown_stage             (* a registered stage the composition has no model for *)
  | FE_shape (k : kstage)        (* a stage in a state it cannot act on *)
  | FE_no_reconstructor.         (* the stage list ended before the reconstructor *)

Inductive fstate :=
  | S_input (s : bytes)
  | S_raw (segs : list seg)
  | S_parsed (toks : list token) (lines : list lline) (marks : list bool)
  | S_fmt (lines : list lline) (l : list ftoken)
  | S_out (o : bytes).

(* ------------------------------------------------------------------ *)
(* the conversions *)
Definition seg_ws (p : seg) : bytes := fst (fst p).
Definition seg_content (p : seg) : bytes := snd (fst p).
Definition seg_ty (p : seg) : RawTokenType := snd p.

(* what the parser reads of a raw token: its type and whether its leading blanks contain CR or LF *)
Definition seg_wsnl (p : seg) : bool := has_break (seg_ws p).

(* DelphiLogicalLineParser::parse: `input.into_iter().map(RawToken::into)` after parse_file retyped the tokens *)
Definition token_of_seg (p : seg) (ty : RawTokenType) : token := mkToken (seg_ws p) (seg_content p) (tt_of_raw ty).
Definition tokens_of (segs : list seg) (tys : list RawTokenType) : list token :=
  map (fun pt : seg * RawTokenType => token_of_seg (fst pt) (snd pt)) (combine segs tys).

Definition set_ty (tok : token) (ty : TokenType) : token := mkToken (t_ws tok) (t_content tok) ty.
Definition retype (toks : list token) (tys : list TokenType) : list token :=
  map (fun pt : token * TokenType => set_ty (fst pt) (snd pt)) (combine toks tys).

Definition line_view (l : lline) : LogicalLineType * list nat := (ll_type l, ll_toks l).

Definition or_marks (a b : list bool) : list bool := map (fun ab : bool * bool => fst ab || snd ab) (combine a b).

(* formatter.rs: `if ignored_tokens.any_marked() { for line in &mut lines { if all tokens marked { void_and_drain } } }`
   (level and parent stay) *)
Definition void_llines (marks : list bool) (lines : list lline) : list lline :=
  if existsb (fun b => b) marks then
    map (fun l => if forallb (fun i => nth i marks false) (ll_toks l) then void_line l else l) lines
  else lines.

(* the voiding, delete_marked_tokens with nothing marked, FormattedTokens::new_from_tokens *)
Definition enter_fmt (toks : list token) (lines : list lline) (marks : list bool) : fstate :=
  S_fmt (void_llines marks lines)
        (map (fun tm : token * bool => (fst tm, fmt_of_ws (t_ws (fst tm)) (snd tm))) (combine toks marks)).

Definition to_fmt (st : fstate) : fstate :=
  match st with S_parsed toks lines marks => enter_fmt toks lines marks | _ => st end.

(* FormatterKind::LineFormatter: the line formatter once per line; the FormatterSelector picks EofNewline for Eof lines *)
Definition eof_newline_lines (lines : list lline) (l : list ftoken) : list ftoken :=
  fold_left (fun l ln => if ll_type ln IS LLT_Eof then eof_newline_once l else l) lines l.

(* ------------------------------------------------------------------ *)
Section Format.
Variable alnum : bytes -> bool.     (* char::is_alphanumeric on the UTF-8 bytes of one character *)
Variable cfg : fconfig.

Definition apply_kstage (k : kstage) (st : fstate) : fstate + ferr :=
  match k with
  | K_Lexer =>
      match st with
      | S_input s => match lex_segments s with Some segs => inl (S_raw segs) | None => inr FE_lex_fuel end
      | _ => inr (FE_shape k)
      end
  | K_Parser =>
      match st with
      | S_raw segs =>
          let r := parse_file_model (map seg_ty segs) (map seg_wsnl segs) in
          match r_err r with
          | Some e => inr (FE_parse e)
          | None => let toks := tokens_of segs (r_toks r) in
                    inl (S_parsed toks (r_lines r) (map (fun _ => false) toks))
          end
      | _ => inr (FE_shape k)
      end
  | K_Generics =>
      match st with
      | S_parsed toks lines marks =>
          match generics_run (map t_ty toks) with
          | G_Ok tys => inl (S_parsed (retype toks tys) lines marks)
          | G_Fuel => inr FE_generics_fuel
          | G_Panic => inr FE_generics_panic
          end
      | _ => inr (FE_shape k)
      end
  | K_CondDir =>
      match st with
      | S_parsed toks lines marks =>
          match expand_all_chk (map t_ty toks) lines with
          | Some _ => inl (S_parsed toks (conddir_consolidate_std (map t_ty toks) lines) marks)
          | None => inr FE_conddir_underflow
          end
      | _ => inr (FE_shape k)
      end
  | K_Deindent =>
      match st with
      | S_parsed toks lines marks => inl (S_parsed toks (deindent_package (map t_ty toks) lines) marks)
      | _ => inr (FE_shape k)
      end
  | K_Toggler =>
      match st with
      | S_parsed toks lines marks => inl (S_parsed toks lines (or_marks marks (toggle_marks false toks)))
      | _ => inr (FE_shape k)
      end
  | K_IgnoreAsm =>
      match st with
      | S_parsed toks lines marks => inl (S_parsed toks lines (or_marks marks (asm_marks toks (map line_view lines))))
      | _ => inr (FE_shape k)
      end
  | K_Spacing =>
      match to_fmt st with S_fmt lines l => inl (S_fmt lines (token_spacing l)) | _ => inr (FE_shape k) end
  | K_Lower =>
      match to_fmt st with S_fmt lines l => inl (S_fmt lines (lowercase_keywords l)) | _ => inr (FE_shape k) end
  | K_Comment =>
      match to_fmt st with S_fmt lines l => inl (S_fmt lines (comment_formatter alnum l)) | _ => inr (FE_shape k) end
  | K_EofNewline =>
      match to_fmt st with S_fmt lines l => inl (S_fmt lines (eof_newline_lines lines l)) | _ => inr (FE_shape k) end
  | K_Wrap =>
      match to_fmt st with
      | S_fmt lines l =>
          let '(l', _, err) := olf_model (cfg_rs cfg) (cfg_ws cfg) (c_fms cfg) lines l in
          if err then inr FE_wrap_fuel else inl (S_fmt lines l')
      | _ => inr (FE_shape k)
      end
  | K_Recon =>
      match to_fmt st with S_fmt _ l => inl (S_out (reconstruct (cfg_rs cfg) l)) | _ => inr (FE_shape k) end
  end.

(* the chain, stopping at the first error *)
Fixpoint run_kinds (ks : list kstage) (st : fstate) : fstate + ferr :=
  match ks with
  | [] => inl st
  | k :: r => match apply_kstage k st with inl st' => run_kinds r st' | inr e => inr e end
  end.

(* the same with every intermediate state kept (for the stage-by-stage comparison of the driver) *)
Fixpoint trace_kinds (ks : list kstage) (st : fstate) : list fstate * option ferr :=
  match ks with
  | [] => ([], None)
  | k :: r => match apply_kstage k st with
              | inl st' => let (ts, e) := trace_kinds r st' in (st' :: ts, e)
              | inr e => ([], Some e)
              end
  end.

Definition format_kinds (ks : list kstage) (input : bytes) : bytes + ferr :=
  match run_kinds ks (S_input input) with
  | inl (S_out o) => inl o
  | inl _ => inr FE_no_reconstructor
  | inr e => inr e
  end.

(* Formatter::format of make_formatter(cfg): the chain over the GENERATED stage list *)
Definition format_model (input : bytes) : bytes + ferr :=
  match classify_all pipeline with
  | Some ks => format_kinds ks input
  | None => inr FE_unknown_stage
  end.

(* The same chain over the stage list written out.  Proofs/FormatProofs.v: `pipeline_kinds` says (by computation on
   the generated list) that `classify_all pipeline = Some make_formatter_kinds`, hence format_model = format_chain;
   a re-ordered, extended or shortened make_formatter breaks that lemma.  The driver runs format_chain / format_trace
   (the generated list carries Coq strings, which are kept out of the extracted code). *)
Definition format_chain (input : bytes) : bytes + ferr := format_kinds make_formatter_kinds input.
Definition format_trace (input : bytes) : list fstate * option ferr := trace_kinds make_formatter_kinds (S_input input).

End Format.

Definition format_bytes (alnum : bytes -> bool) (cfg : fconfig) (input : bytes) : option bytes :=
  match format_model alnum cfg input with inl o => Some o | inr _ => None end.

(* ------------------------------------------------------------------ *)
(* The composition written out: the named intermediate values of a run, as functions of the lexer's tokens.
   Proofs/FormatProofs.v (format_model_eq, format_model_spec) shows that format_model is exactly this expression;
   the end-to-end theorems are stated on these names. *)
Definition fm_parse (segs : list seg) : presult := parse_file_model (map seg_ty segs) (map seg_wsnl segs).
(* the tokens handed to everything after the parser: the lexer's text, the parser's types with the generic chevrons distinguished *)
Definition fm_toks0 (segs : list seg) : list token := tokens_of segs (r_toks (fm_parse segs)).
Definition fm_toks (segs : list seg) : list token := retype (fm_toks0 segs) (generics_consolidate (map t_ty (fm_toks0 segs))).
Definition fm_tys (segs : list seg) : list TokenType := map t_ty (fm_toks segs).
(* the lines after both consolidators *)
Definition fm_lines_cd (segs : list seg) : list lline := conddir_consolidate_std (fm_tys segs) (r_lines (fm_parse segs)).
Definition fm_lines0 (segs : list seg) : list lline := deindent_package (fm_tys segs) (fm_lines_cd segs).
(* the ignore marks *)
Definition fm_marks (segs : list seg) : list bool :=
  or_marks (or_marks (map (fun _ => false) (fm_toks0 segs)) (toggle_marks false (fm_toks segs)))
           (asm_marks (fm_toks segs) (map line_view (fm_lines0 segs))).
(* what the formatters see *)
Definition fm_lines (segs : list seg) : list lline := void_llines (fm_marks segs) (fm_lines0 segs).
Definition fm_l0 (segs : list seg) : list ftoken :=
  map (fun tm : token * bool => (fst tm, fmt_of_ws (t_ws (fst tm)) (snd tm))) (combine (fm_toks segs) (fm_marks segs)).
Definition fm_l1 segs := token_spacing (fm_l0 segs).
Definition fm_l2 segs := lowercase_keywords (fm_l1 segs).
Definition fm_l3 alnum segs := comment_formatter alnum (fm_l2 segs).
Definition fm_l4 alnum segs := eof_newline_lines (fm_lines segs) (fm_l3 alnum segs).
Definition fm_wrap alnum cfg segs := olf_model (cfg_rs cfg) (cfg_ws cfg) (c_fms cfg) (fm_lines segs) (fm_l4 alnum segs).
Definition fm_final alnum cfg segs : list ftoken := fst (fst (fm_wrap alnum cfg segs)).
Definition fm_out alnum cfg segs : bytes := reconstruct (cfg_rs cfg) (fm_final alnum cfg segs).

(* the three side conditions: the explicit error values of the stage models that the composition can return
   (FormatTotalProofs: the second and third are never hit) *)
Definition fm_parse_ok segs : Prop := r_err (fm_parse segs) = None.
Definition fm_conddir_ok segs : Prop := expand_all_chk (fm_tys segs) (r_lines (fm_parse segs)) <> None.
Definition fm_wrap_ok alnum cfg segs : Prop := snd (fm_wrap alnum cfg segs) = false.

(* ------------------------------------------------------------------ *)
(* Acceptance predicate of Proofs/FormatEofProofs.v (format_ends_with_one_newline), evaluated by the driver unit `eofhyp`:
   token e lies only in parentless Eof lines [e] that are nobody's parent *)
Definition lone_linesb (lines : list lline) (e : nat) : bool :=
  forallb (fun kl : nat * lline =>
             let (k, ln) := kl in
             if existsb (Nat.eqb e) (ll_toks ln) then
               nat_list_eqb (ll_toks ln) [e]
               && match ll_parent ln with None => true | Some _ => false end
               && (ll_type ln IS LLT_Eof)
               && forallb (fun l' => match ll_parent l' with Some (pl, _) => negb (Nat.eqb pl k) | None => true end) lines
             else true)
          (combine (seq 0 (length lines)) lines).

Definition eof_lines_okb (segs : list seg) : bool :=
  lone_linesb (fm_lines segs) (length segs - 1)
  && existsb (fun ln => ll_type ln IS LLT_Eof) (fm_lines segs)
  && match nth_error (fm_marks segs) (length segs - 1) with Some false => true | _ => false end.

(* ------------------------------------------------------------------ *)
(* Acceptance predicate of Proofs/FormatIdemProofs.v (format_idempotent), evaluated by the driver unit `idemhyp`.
   The checks, in order (idem_hyp_checks):
     0 the output scans again (the lexer does not run out of fuel)
     1 the scan of the output cuts it where the reconstructor put the pieces: same whitespace pieces, same token texts
     2 and gives every token the raw kind it had in the input
     3 no `asm` keyword
     4 the first run ignores no token     5 the second run ignores no token
     6 format_multiline_strings = false, or no multi-line string literal
     7 every token is decided by the search of the first run (or is the final Eof token, set by EofNewline)
     8 the spaces_before the second search reads are those the first search read *)
Fixpoint glue_list (rs : rsettings) (mb : bool) (l : list ftoken) : list bytes :=
  match l with
  | [] => []
  | p :: r => emit_ws rs mb p :: glue_list rs (is_sl_comment (t_ty (fst p))) r
  end.

Fixpoint list_eqb {A} (eqb : A -> A -> bool) (a b : list A) : bool :=
  match a, b with
  | [], [] => true
  | x :: a', y :: b' => eqb x y && list_eqb eqb a' b'
  | _, _ => false
  end.

Definition not_asmb (t : RawTokenType) : bool :=
  match t with RTT_Keyword KK_Asm | RTT_IdentifierOrKeyword KK_Asm => false | _ => true end.

Fixpoint mark_nth (i : nat) (l : list bool) : list bool :=
  match l, i with
  | [], _ => []
  | _ :: t, O => true :: t
  | b :: t, S j => b :: mark_nth j t
  end.

(* the decisions of the first phase of the search, in the order they are applied *)
Definition fm_plan1 alnum cfg segs : list (nat * decision) :=
  plan_of_events (rev (ss_log (wrap_phase1 (cfg_ws cfg) (map tokinfo_of (fm_l4 alnum segs)) (fm_lines segs)))).

Definition decided_marks alnum cfg segs : list bool :=
  fold_left (fun acc (pd : nat * decision) => mark_nth (fst pd) acc) (fm_plan1 alnum cfg segs) (map (fun _ => false) segs).

Definition has_eof_line (lines : list lline) : bool := existsb (fun ln => ll_type ln IS LLT_Eof) lines.

(* token i (of n) is the final token, an Eof token, and EofNewline runs *)
Definition eof_set (lines : list lline) (n i : nat) (ty : TokenType) : bool :=
  Nat.eqb (S i) n && is_eof ty && has_eof_line lines.

Definition sp_list (l : list ftoken) : list N := map (fun p : ftoken => f_sp (snd p)) l.

Definition idem_hyp_checks alnum cfg (segs : list seg) : list bool :=
  let F := fm_final alnum cfg segs in
  let l4 := fm_l4 alnum segs in
  match lex_segments (reconstruct (cfg_rs cfg) F) with
  | None => [false]
  | Some segs2 =>
      [ true;
        list_eqb bytes_eqb (map seg_ws segs2) (glue_list (cfg_rs cfg) false F)
        && list_eqb bytes_eqb (map seg_content segs2) (map (fun p : ftoken => t_content (fst p)) F);
        list_eqb RawTokenType_eqb (map seg_ty segs2) (map seg_ty segs);
        forallb not_asmb (map seg_ty segs);
        forallb negb (fm_marks segs);
        forallb negb (fm_marks segs2);
        negb (c_fms cfg) || forallb (fun tok => negb (is_ml_string (t_ty tok))) (fm_toks segs);
        forallb (fun x : (nat * bool) * ftoken =>
                   snd (fst x) || eof_set (fm_lines segs) (length segs) (fst (fst x)) (t_ty (fst (snd x))))
                (combine (combine (seq 0 (length segs)) (decided_marks alnum cfg segs)) l4);
        list_eqb N.eqb (sp_list (fm_l4 alnum segs2)) (sp_list l4) ]
  end.

Definition idem_hypb alnum cfg segs : bool := forallb (fun b : bool => b) (idem_hyp_checks alnum cfg segs).

(* the same without check 5: that the second run ignores nothing follows from the others (FormatIdemProofs.second_run_ignores_nothing) *)
Definition idem_hyp_checks_min alnum cfg (segs : list seg) : list bool :=
  let F := fm_final alnum cfg segs in
  let l4 := fm_l4 alnum segs in
  match lex_segments (reconstruct (cfg_rs cfg) F) with
  | None => [false]
  | Some segs2 =>
      [ true;
        list_eqb bytes_eqb (map seg_ws segs2) (glue_list (cfg_rs cfg) false F)
        && list_eqb bytes_eqb (map seg_content segs2) (map (fun p : ftoken => t_content (fst p)) F);
        list_eqb RawTokenType_eqb (map seg_ty segs2) (map seg_ty segs);
        forallb not_asmb (map seg_ty segs);
        forallb negb (fm_marks segs);
        negb (c_fms cfg) || forallb (fun tok => negb (is_ml_string (t_ty tok))) (fm_toks segs);
        forallb (fun x : (nat * bool) * ftoken =>
                   snd (fst x) || eof_set (fm_lines segs) (length segs) (fst (fst x)) (t_ty (fst (snd x))))
                (combine (combine (seq 0 (length segs)) (decided_marks alnum cfg segs)) l4);
        list_eqb N.eqb (sp_list (fm_l4 alnum segs2)) (sp_list l4) ]
  end.
Definition idem_hypb_min alnum cfg segs : bool := forallb (fun b : bool => b) (idem_hyp_checks_min alnum cfg segs).

(* ... and with the raw kinds of the re-scan compared up to the Individual / Inline flag of comments only (FormatIdemKindsProofs:
   the flag follows from the first run: every token decided, and no Inline comment directly after a `//` comment) *)
Definition unflag_raw (ty : RawTokenType) : RawTokenType :=
  match ty with
  | RTT_Comment ck =>
      RTT_Comment match ck with
                  | CoK_InlineLine | CoK_IndividualLine => CoK_InlineLine
                  | CoK_InlineBlock | CoK_IndividualBlock => CoK_InlineBlock
                  | CoK_MultilineBlock => CoK_MultilineBlock
                  end
  | _ => ty
  end.
Definition is_inline_comment (ty : TokenType) : bool :=
  match ty with TT_Comment (CoK_InlineLine | CoK_InlineBlock) => true | _ => false end.
Fixpoint no_inline_after_slb (tys : list TokenType) : bool :=
  match tys with
  | a :: r => match r with b :: _ => negb (is_sl_comment a && is_inline_comment b) | [] => true end && no_inline_after_slb r
  | [] => true
  end.
Definition idem_hyp_checks_kinds alnum cfg (segs : list seg) : list bool :=
  let F := fm_final alnum cfg segs in
  let l4 := fm_l4 alnum segs in
  match lex_segments (reconstruct (cfg_rs cfg) F) with
  | None => [false]
  | Some segs2 =>
      [ true;
        list_eqb bytes_eqb (map seg_ws segs2) (glue_list (cfg_rs cfg) false F)
        && list_eqb bytes_eqb (map seg_content segs2) (map (fun p : ftoken => t_content (fst p)) F);
        list_eqb RawTokenType_eqb (map (fun sg => unflag_raw (seg_ty sg)) segs2) (map (fun sg => unflag_raw (seg_ty sg)) segs);
        forallb not_asmb (map seg_ty segs);
        forallb negb (fm_marks segs);
        negb (c_fms cfg) || forallb (fun tok => negb (is_ml_string (t_ty tok))) (fm_toks segs);
        forallb (fun x : (nat * bool) * ftoken =>
                   snd (fst x) || eof_set (fm_lines segs) (length segs) (fst (fst x)) (t_ty (fst (snd x))))
                (combine (combine (seq 0 (length segs)) (decided_marks alnum cfg segs)) l4);
        no_inline_after_slb (fm_tys segs);
        list_eqb N.eqb (sp_list (fm_l4 alnum segs2)) (sp_list l4) ]
  end.
Definition idem_hypb_kinds alnum cfg segs : bool := forallb (fun b : bool => b) (idem_hyp_checks_kinds alnum cfg segs).

(* ------------------------------------------------------------------ *)
(* Acceptance predicate of Proofs/LexerCrlfProofs.v (lex_crlf) / FormatCrlfLinkProofs.v (format_crlf_input_linked), evaluated by the
   driver unit `crlfhyp`: no token text contains a LF or a CR; a directive token has its closing delimiter
   (copies of the definitions of Proofs/LexerRelayoutProofs.v, equal to them by FormatCrlfLinkProofs.crlf_link_okb_eq) *)
Definition lk_comment_body (b : byte) (c : bytes) : BlockCommentKind * bytes :=
  if b =? 123 then (BCK_Brace, c) else (BCK_ParenStar, tl c).
Definition lk_comment_unterminated (b : byte) (c : bytes) : bool :=
  match find_block_comment_end (fst (lk_comment_body b c)) (snd (lk_comment_body b c)) with None => true | Some _ => false end.
Definition lk_dir_terminated (k : BlockCommentKind) (q : bytes) : bool :=
  match parse_directive_end (find_directive_expr_end (S (length q))) k q with DEnd e => Nat.eqb e (length q) | _ => false end.
Definition lk_closedb (b : byte) (q : bytes) (ty : RawTokenType) : bool :=
  match ty with
  | RTT_Comment ck => negb (match ck with CoK_InlineLine | CoK_IndividualLine => true | _ => false end) && negb (lk_comment_unterminated b q)
  | RTT_ConditionalDirective _ | RTT_CompilerDirective => lk_dir_terminated (fst (lk_comment_body b q)) (tl (snd (lk_comment_body b q)))
  | _ => false
  end.
Definition lk_open_commentb (b : byte) (q : bytes) (ty : RawTokenType) : bool :=
  match ty with
  | RTT_Comment ck => negb (match ck with CoK_InlineLine | CoK_IndividualLine => true | _ => false end) && lk_comment_unterminated b q
  | _ => false
  end.
Definition crlf_seg_okb (sg : seg) : bool :=
  match sg with
  | (_, [], _) => true
  | (_, b :: q, ty) =>
      forallb (fun x => negb (is_eol x)) (b :: q)
      && (negb ((b =? 123) || ((b =? 40) && next_is 42 q)) || lk_closedb b q ty || lk_open_commentb b q ty)
  end.
Definition crlf_link_okb (segs : list seg) : bool := forallb crlf_seg_okb segs.
