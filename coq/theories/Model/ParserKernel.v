(* Model/ParserKernel.v — the line-state kernel of core/src/defaults/parser.rs.
   The grammar (2.5 kLOC of control flow) is NOT modelled: it is whatever sequence of primitive
   events it produces.  The primitives are the only code that mutates result_lines / current_line /
   pass_index / last_finished_line (generated inventory), one event letter per hook site:
     T  one iteration of next_token's loop, or one inline-comment push inside finish_logical_line:
        push pass_indices[pass_index] (if any) onto the current line; pass_index += 1
     S  skip_token: pass_index += 1
     L  finish_logical_line on a non-empty line: append an empty line, make it the current one,
        remember the finished one as last_finished_line
     C  do_with_context with a parent: append an empty child line and push it on the stack
     c  … pop it
     R  take_separators_on_last_line: push last_finished_line on the stack;  r  … pop it *)
From PasfmtVerif Require Export Base.Bytes.

Inductive kev := KT | KS | KL | KC | Kc | KR | Kr.

Record kstate := mkK { k_lines : list (list nat); k_cur : list nat; k_pi : nat; k_last : nat }.

Definition k_init : kstate := mkK [[]] [0%nat] 0 0.

Fixpoint upd_nth {A} (i : nat) (f : A -> A) (l : list A) : list A :=
  match l, i with
  | [], _ => []
  | a :: t, O => f a :: t
  | a :: t, S j => a :: upd_nth j f t
  end.

Definition k_top (s : kstate) : nat := hd 0%nat (k_cur s).

(* NonEmptyVec::pop keeps the last element *)
Definition pop_keep (l : list nat) : list nat := match l with _ :: b :: t => b :: t | _ => l end.

Definition k_step (pass : list nat) (s : kstate) (e : kev) : kstate :=
  match e with
  | KT => match nth_error pass (k_pi s) with
          | Some t => mkK (upd_nth (k_top s) (fun l => l ++ [t]) (k_lines s)) (k_cur s) (S (k_pi s)) (k_last s)
          | None => mkK (k_lines s) (k_cur s) (S (k_pi s)) (k_last s)
          end
  | KS => mkK (k_lines s) (k_cur s) (S (k_pi s)) (k_last s)
  | KL => let n := length (k_lines s) in
          mkK (k_lines s ++ [[]]) (match k_cur s with _ :: r => n :: r | [] => [n] end) (k_pi s) (k_top s)
  | KC => let n := length (k_lines s) in mkK (k_lines s ++ [[]]) (n :: k_cur s) (k_pi s) n
  | Kc | Kr => mkK (k_lines s) (pop_keep (k_cur s)) (k_pi s) (k_last s)
  | KR => mkK (k_lines s) (k_last s :: k_cur s) (k_pi s) (k_last s)
  end.

Definition k_run (pass : list nat) (evs : list kev) : kstate := fold_left (k_step pass) evs k_init.

(* positions skipped by S events (pass_index values at which skip_token ran) *)
Fixpoint k_skips (evs : list kev) (pi : nat) : list nat :=
  match evs with
  | [] => []
  | KT :: r => k_skips r (S pi)
  | KS :: r => pi :: k_skips r (S pi)
  | _ :: r => k_skips r pi
  end.

(* consolidate_pass_lines, on token lists: empty lines are dropped, a line already present (by
   value) is not added again.  (The Rust key also contains parent, level and type; for ordering and
   coverage only the token lists matter.) *)
Fixpoint nat_list_eqb (a b : list nat) : bool :=
  match a, b with
  | [], [] => true
  | x :: a', y :: b' => Nat.eqb x y && nat_list_eqb a' b'
  | _, _ => false
  end.

Definition consolidate_pass (acc : list (list nat)) (pass_lines : list (list nat)) : list (list nat) :=
  fold_left (fun acc l => match l with
                          | [] => acc
                          | _ => if existsb (nat_list_eqb l) acc then acc else acc ++ [l]
                          end) pass_lines acc.

(* parse_file on token lists: the passes, then a singleton line for every conditional directive and
   every compiler directive that no pass pushed *)
Definition parse_file_lines (is_directive : nat -> bool) (ntok : nat) (pass_results : list (list (list nat))) : list (list nat) :=
  let merged := fold_left consolidate_pass pass_results [] in
  let pushed := concat merged in
  let dirs := filter (fun i => is_directive i && negb (existsb (Nat.eqb i) pushed)) (seq 0 ntok) in
  consolidate_pass merged (map (fun i => [i]) dirs).
