(* Model/DirectiveTree.v — core/src/defaults/parser/directive_tree.rs lines 1..183:
   DirectiveTree::parse / parse_next, Section::parse_flat / parse_nested, pass, explored, PassIter::next.

   The Rust iterator `tokens.iter().map(get_token_type).enumerate()` is shared mutable state; it is
   modelled by threading the remaining list of (global index, raw token type) pairs through every
   function and returning what is left.  Indices, lengths and fuel are nat. *)
From PasfmtVerif Require Export Model.Token.
Local Open Scope nat_scope.

(* struct DirectiveTree { sections: Vec<Section> }
   enum Section { Flat { explored, range: start..stop }, Nested(Vec<DirectiveTree>) } *)
Inductive tree : Set := Tree (sections : list section)
with section : Set :=
  | Flat (explored : bool) (start stop : nat)
  | Nested (branches : list tree).

Definition itok : Set := (nat * RawTokenType)%type.

(* `.enumerate()` starting at index i *)
Fixpoint enumerate_from (i : nat) (l : list RawTokenType) : list itok :=
  match l with
  | [] => []
  | t :: r => (i, t) :: enumerate_from (S i) r
  end.

(* `if let TT::ConditionalDirective(cdk) = tt` *)
Definition cd_kind (ty : RawTokenType) : option ConditionalDirectiveKind :=
  match ty with
  | RTT_ConditionalDirective k => Some k
  | _ => None
  end.

(* ------------------------------------------------------------------ *)
(* Section::parse_flat — the `for (idx, tt) in tokens` loop with its three mutable locals
   `start`, `range`, `ending_cdk`; the directive that ends the section is consumed. *)
Fixpoint parse_flat_go (start : option nat) (range : nat * nat) (toks : list itok)
  : (nat * nat) * option ConditionalDirectiveKind * list itok :=
  match toks with
  | [] => (range, None, [])
  | (idx, ty) :: r =>
    match cd_kind ty with
    | Some cdk => (range, Some cdk, r)
    | None =>
      (* range = [deref start.get_or_insert(idx)]..(idx + 1) *)
      let s := match start with Some s => s | None => idx end in
      parse_flat_go (Some s) (s, idx + 1) r
    end
  end.

Definition parse_flat (toks : list itok) : section * option ConditionalDirectiveKind * list itok :=
  let '(range, cdk, r) := parse_flat_go None (0, 0) toks in
  (Flat false (fst range) (snd range), cdk, r).

(* ------------------------------------------------------------------ *)
(* DirectiveTree::parse_next (its `loop`, returning the sections pushed from here on) and
   Section::parse_nested (its first call + `while` loop, returning the branches).
   Both recurse on fuel; None = out of fuel (unreachable, see DirectiveTreeProofs.parse_total). *)
Fixpoint parse_sections (fuel : nat) (top_level : bool) (toks : list itok)
  : option (list section * option ConditionalDirectiveKind * list itok) :=
  match fuel with
  | 0 => None
  | S f =>
    let '(flat, cdk, toks1) := parse_flat toks in
    match cdk with
    | Some k =>
      if ConditionalDirectiveKind_is_if k then
        match parse_branches f toks1 with
        | Some (branches, toks2) =>
          match parse_sections f top_level toks2 with
          | Some (rest, c, toks3) => Some (flat :: Nested branches :: rest, c, toks3)
          | None => None
          end
        | None => None
        end
      else if top_level then
        (* ignore any unmatched directives at the top level *)
        match parse_sections f top_level toks1 with
        | Some (rest, c, toks3) => Some (flat :: rest, c, toks3)
        | None => None
        end
      else Some ([flat], cdk, toks1)
    | None => Some ([flat], None, toks1)
    end
  end
with parse_branches (fuel : nat) (toks : list itok) : option (list tree * list itok) :=
  match fuel with
  | 0 => None
  | S f =>
    match parse_sections f false toks with
    | Some (secs, cdk, toks1) =>
      if match cdk with Some k => ConditionalDirectiveKind_is_else k | None => false end then
        match parse_branches f toks1 with
        | Some (rest, toks2) => Some (Tree secs :: rest, toks2)
        | None => None
        end
      else Some ([Tree secs], toks1)
    | None => None
    end
  end.

Definition parse_next (fuel : nat) (top_level : bool) (toks : list itok)
  : option (tree * option ConditionalDirectiveKind * list itok) :=
  match parse_sections fuel top_level toks with
  | Some (secs, cdk, r) => Some (Tree secs, cdk, r)
  | None => None
  end.

Definition parse_nested (fuel : nat) (toks : list itok) : option (section * list itok) :=
  match parse_branches fuel toks with
  | Some (bs, r) => Some (Nested bs, r)
  | None => None
  end.

Definition parse_fuel (l : list RawTokenType) : nat := 2 * length l + 1.

(* DirectiveTree::parse; None only if the fuel ran out *)
Definition parse_opt (l : list RawTokenType) : option tree :=
  match parse_next (parse_fuel l) true (enumerate_from 0 l) with
  | Some (t, _, _) => Some t
  | None => None
  end.

Definition parse (l : list RawTokenType) : tree :=
  match parse_opt l with Some t => t | None => Tree [] end.

(* ------------------------------------------------------------------ *)
(* explored *)
Fixpoint explored (t : tree) : bool :=
  match t with Tree ss => forallb explored_section ss end
with explored_section (s : section) : bool :=
  match s with
  | Flat e _ _ => e
  | Nested bs => forallb explored bs
  end.

(* ------------------------------------------------------------------ *)
(* pass.  The two list traversals are generic in the element function so that the nested recursion
   over `list section` / `list tree` is accepted by the guard checker. *)
Section PassLists.
  Context {A : Type}.
  Variable f : A -> A * list nat.

  (* `for section in &mut self.sections { section.pass(pass) }` *)
  Fixpoint pass_all (l : list A) : list A * list nat :=
    match l with
    | [] => ([], [])
    | a :: r =>
      let (a', p1) := f a in
      let (r', p2) := pass_all r in
      (a' :: r', p1 ++ p2)
    end.

  Variable pred : A -> bool.

  (* `if let Some(x) = l.iter_mut().find_or_last(pred) { x.pass(pass) }`
     itertools find_or_last: first element satisfying pred, else the last one, None iff empty *)
  Fixpoint pass_find_or_last (l : list A) : list A * list nat :=
    match l with
    | [] => ([], [])
    | a :: r =>
      if pred a then let (a', p) := f a in (a' :: r, p)
      else match r with
           | [] => let (a', p) := f a in ([a'], p)
           | _ :: _ => let (r', p) := pass_find_or_last r in (a :: r', p)
           end
    end.
End PassLists.

(* `start..stop` as the list of its elements *)
Definition range_list (start stop : nat) : list nat := seq start (stop - start).

(* DirectiveTree::pass / Section::pass: the updated tree and the indices appended to `pass` *)
Fixpoint pass_tree (t : tree) : tree * list nat :=
  match t with
  | Tree ss => let (ss', p) := pass_all pass_section ss in (Tree ss', p)
  end
with pass_section (s : section) : section * list nat :=
  match s with
  | Flat _ a b => (Flat true a b, range_list a b)
  | Nested bs =>
    let (bs', p) := pass_find_or_last pass_tree (fun g => negb (explored g)) bs in
    (Nested bs', p)
  end.

(* PassIter: `next` until `exhausted`; the iterator state is the tree (exhausted = false while we
   recurse).  None = out of fuel. *)
Fixpoint passes_opt (t : tree) (fuel : nat) : option (list (list nat)) :=
  match fuel with
  | 0 => None
  | S f =>
    let (t', p) := pass_tree t in
    if explored t' then Some [p]
    else match passes_opt t' f with
         | Some ps => Some (p :: ps)
         | None => None
         end
  end.

(* [] is never a legitimate result (there is always at least one pass) *)
Definition passes (t : tree) (fuel : nat) : list (list nat) :=
  match passes_opt t fuel with Some ps => ps | None => [] end.

(* all Flat sections in depth-first order: (explored, (start, stop)) *)
Definition flat_entry : Set := (bool * (nat * nat))%type.

Fixpoint flat_list (t : tree) : list flat_entry :=
  match t with Tree ss => flat_map flat_list_section ss end
with flat_list_section (s : section) : list flat_entry :=
  match s with
  | Flat e a b => [(e, (a, b))]
  | Nested bs => flat_map flat_list bs
  end.

Definition nflat (t : tree) : nat := length (flat_list t).

Definition passes_fuel (t : tree) : nat := S (nflat t).

(* parse_file: `DirectiveTree::parse(tokens).passes()` collected *)
Definition all_passes (l : list RawTokenType) : list (list nat) :=
  let t := parse l in passes t (passes_fuel t).
