(* Model/Lines.v — logical lines (core/src/lang.rs: LogicalLine) and the executable well-formedness
   predicates of C14, evaluated on every real parse result. *)
From PasfmtVerif Require Export Model.Token.

Record lline := mkLine { ll_type : LogicalLineType; ll_level : N; ll_parent : option (nat * nat); ll_toks : list nat }.

Fixpoint strictly_increasing (l : list nat) : bool :=
  match l with
  | a :: ((b :: _) as t) => Nat.ltb a b && strictly_increasing t
  | _ => true
  end.

Definition line_ok (ntok : nat) (l : lline) : bool :=
  match ll_toks l with
  | [] => false
  | _ :: _ => strictly_increasing (ll_toks l) && forallb (fun i => Nat.ltb i ntok) (ll_toks l)
  end.

Definition count_in_lines (lines : list lline) (i : nat) : nat :=
  fold_left (fun acc l => if existsb (Nat.eqb i) (ll_toks l) then S acc else acc) lines 0%nat.

Definition is_cond_directive (ty : TokenType) : bool :=
  match ty with TT_ConditionalDirective _ => true | _ => false end.

(* every line non-empty, strictly increasing, in range; every token in at least one line, exactly
   one when the file has no conditional directive *)
Definition lines_cover (tys : list TokenType) (lines : list lline) : bool :=
  let n := length tys in
  let nodir := negb (existsb is_cond_directive tys) in
  forallb (line_ok n) lines
  && forallb (fun i => let k := count_in_lines lines i in Nat.leb 1 k && (if nodir then Nat.eqb k 1 else true)) (seq 0 n).

(* a child line's parent precedes it and contains the parent token *)
Fixpoint parents_ok_from (all : list lline) (i : nat) (rest : list lline) : bool :=
  match rest with
  | [] => true
  | l :: r =>
      (match ll_parent l with
       | None => true
       | Some (pl, pt) =>
           Nat.ltb pl i && match nth_error all pl with
                           | Some p => existsb (Nat.eqb pt) (ll_toks p)
                           | None => false
                           end
       end) && parents_ok_from all (S i) r
  end.
Definition parents_ok (lines : list lline) : bool := parents_ok_from lines 0 lines.

(* exactly one Eof line, holding only the Eof token, which is the last token *)
Definition eof_line_ok (tys : list TokenType) (lines : list lline) : bool :=
  let n := length tys in
  match filter (fun l => match ll_type l with LLT_Eof => true | _ => false end) lines with
  | [l] => match ll_toks l with
           | [i] => Nat.eqb (S i) n && match nth_error tys i with Some TT_Eof => true | _ => false end
           | _ => false
           end
  | _ => false
  end
  && forallb (fun l => match ll_type l with LLT_Eof => true | _ => negb (existsb (fun i => Nat.eqb (S i) n) (ll_toks l)) end) lines.
