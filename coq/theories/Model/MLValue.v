(* Model/MLValue.v — the multi-line literal as Delphi sees it (executable; used by the C12 oracle
   and by Proofs/MLStringProofs.v): closing line, its indentation, the value, eligibility. *)
From PasfmtVerif Require Export Model.MLString.

Notation clw := count_leading_whitespace (only parsing).

Definition line_ok (base l : list N) : bool := is_prefix base l || is_prefix l base.

(* a line relative to an indentation: the indentation stripped; a line that is only a prefix of
   the indentation is the empty line *)
Definition strip_indent (base l : list N) : list N :=
  match ml_strip_prefix base l with
  | Some s => s
  | None => if is_prefix l base then [] else l
  end.


(* the closing-quotes line, its indentation, the lines in between *)
Definition closing_line (c : list N) : list N := last (lines_custom c) [].
Definition closing_indent (c : list N) : list N := leading_ws (closing_line c).
Definition interior (c : list N) : list (list N) := removelast (tl (lines_custom c)).

(* the VALUE of the literal: interior lines relative to the closing line's indentation *)
Definition ml_value (c : list N) : list (list N) :=
  map (strip_indent (closing_indent c)) (interior c).

(* the closing line is not made of blanks only (a lexed literal ends with its quotes) *)
Definition closing_has_text (c : list N) : bool :=
  Nat.ltb (clw (closing_line c)) (length (closing_line c)).

(* closing line = blanks then only quotes; interior lines start with that indentation or are a
   prefix of it *)
Definition eligible (c : list N) : bool :=
  Nat.eqb (clw (closing_line c)) (length (trim_end_by is_quote (closing_line c)))
  && forallb (line_ok (closing_indent c)) (interior c).

