(* Model/Token.v — tokens, per-token formatting data, reconstruction settings (core/src/lang.rs) *)
From PasfmtVerif Require Export Base.Bytes Gen.Lang.

Record token := mkToken { t_ws : bytes; t_content : bytes; t_ty : TokenType }.

(* lang.rs: FormattingData — u16 counters are N here; saturation is explicit where Rust saturates *)
Record fmt := mkFmt { f_ignored : bool; f_nl : N; f_ind : N; f_cont : N; f_sp : N }.

(* lang.rs: ReconstructionSettings *)
Record rsettings := mkRS { rs_newline : bytes; rs_indent : bytes; rs_cont : bytes }.

Definition ftoken := (token * fmt)%type.

Definition is_eof (ty : TokenType) : bool := match ty with TT_Eof => true | _ => false end.
Definition is_sl_comment (ty : TokenType) : bool :=
  match ty with TT_Comment ck => CommentKind_is_singleline ck | _ => false end.
Definition is_comment (ty : TokenType) : bool := match ty with TT_Comment _ => true | _ => false end.
Definition is_keyword (ty : TokenType) : bool := match ty with TT_Keyword _ => true | _ => false end.
Definition is_ml_string (ty : TokenType) : bool :=
  match ty with TT_TextLiteral TK_MultiLine => true | _ => false end.

Definition contains_byte (b : byte) (l : bytes) : bool := existsb (N.eqb b) l.

(* lang.rs: ReconstructionSettings::new(line_ending, tab, indent_width, continuation_width) *)
Definition rs_new (crlf : bool) (hard_tabs : bool) (indent_width cont_width : N) : rsettings :=
  let nl := if crlf then [13; 10] else [10] in
  let unit := if hard_tabs then [9] else [32] in
  mkRS nl (nrepeat indent_width unit) (nrepeat cont_width unit).

Definition u8_sat_mul (a b : N) : N := N.min 255 (a * b).

(* front-end/src/lib.rs: From<&FormattingConfig> for ReconstructionSettings *)
Definition rs_of_config (crlf use_tabs : bool) (tab_width cont_indents : N) : rsettings :=
  if use_tabs then rs_new crlf true 1 cont_indents
  else rs_new crlf false tab_width (u8_sat_mul cont_indents tab_width).
