(* Model/Encoding.v — the codec layer of orchestrator/src/file_formatter.rs:
   Encoding::for_bom, decode_without_bom_handling (UTF-8, UTF-16LE/BE, abstract legacy code pages),
   decode_file, encode_utf16 / encode_utf16le / encode_utf16be, encode, write (the bytes it emits).

   Text (a Rust `str`) is modelled as the list of its Unicode scalar values (`list N`).
   A Rust `str` is valid UTF-8 by construction, so "the UTF-8 bytes of the str" = utf8_encode text.
   No proofs here. *)
From PasfmtVerif Require Export Base.Bytes.

(* ------------------------------------------------------------------ *)
(* Unicode scalar values: 0..10FFFF without the surrogates D800..DFFF *)

Definition scalar_ok (c : N) : bool := (c <? 55296) || ((57343 <? c) && (c <=? 1114111)).

Definition text := list N.
Definition text_ok (t : text) : Prop := Forall (fun c => scalar_ok c = true) t.

Definition ocons (c : N) (o : option (list N)) : option (list N) :=
  match o with Some l => Some (c :: l) | None => None end.

(* ------------------------------------------------------------------ *)
(* UTF-8 *)

(* char::encode_utf8 *)
Definition utf8_encode_char (c : N) : bytes :=
  if c <? 128 then [c]
  else if c <? 2048 then [192 + c / 64; 128 + c mod 64]
  else if c <? 65536 then [224 + c / 4096; 128 + (c / 64) mod 64; 128 + c mod 64]
  else [240 + c / 262144; 128 + (c / 4096) mod 64; 128 + (c / 64) mod 64; 128 + c mod 64].

Definition utf8_encode (t : text) : bytes := flat_map utf8_encode_char t.

(* Strict UTF-8 validation + decoding (what `UTF_8.decode_without_bom_handling` does when it reports
   "no replacements"): lead byte C2..DF / E0..EF / F0..F4, continuation bytes 80..BF, and the decoded
   value must be in the range of its length class (no overlong forms), not a surrogate, <= 10FFFF.
   None = at least one malformed sequence (encoding_rs would have substituted U+FFFD and returned
   had_replacements = true; pasfmt only looks at that flag).
   Values >= 256 are not bytes; they fall in the final `else None`. *)
Fixpoint utf8_decode (l : bytes) : option text :=
  match l with
  | [] => Some []
  | b0 :: r0 =>
    if b0 <? 128 then ocons b0 (utf8_decode r0)
    else if (194 <=? b0) && (b0 <=? 223) then
      match r0 with
      | b1 :: r1 =>
        if is_cont b1 then ocons ((b0 - 192) * 64 + (b1 - 128)) (utf8_decode r1) else None
      | [] => None
      end
    else if (224 <=? b0) && (b0 <=? 239) then
      match r0 with
      | b1 :: b2 :: r2 =>
        let c := (b0 - 224) * 4096 + (b1 - 128) * 64 + (b2 - 128) in
        if is_cont b1 && is_cont b2 && (2048 <=? c) && scalar_ok c
        then ocons c (utf8_decode r2) else None
      | _ => None
      end
    else if (240 <=? b0) && (b0 <=? 244) then
      match r0 with
      | b1 :: b2 :: b3 :: r3 =>
        let c := (b0 - 240) * 262144 + (b1 - 128) * 4096 + (b2 - 128) * 64 + (b3 - 128) in
        if is_cont b1 && is_cont b2 && is_cont b3 && (65536 <=? c) && (c <=? 1114111)
        then ocons c (utf8_decode r3) else None
      | _ => None
      end
    else None
  end.

(* ------------------------------------------------------------------ *)
(* UTF-16 *)

(* char::encode_utf16: one unit below 10000, else a surrogate pair
   (code -= 0x10000; [0xD800 | code >> 10, 0xDC00 | code & 0x3FF]) *)
Definition utf16_units_char (c : N) : list N :=
  if c <? 65536 then [c]
  else [55296 + (c - 65536) / 1024; 56320 + (c - 65536) mod 1024].

(* str::encode_utf16 *)
Definition utf16_units (t : text) : list N := flat_map utf16_units_char t.

(* u16::to_le_bytes / u16::to_be_bytes (u < 65536 for every unit of a text_ok text:
   EncodingProofs.utf16_units_range) *)
Definition u16_le (u : N) : bytes := [u mod 256; u / 256].
Definition u16_be (u : N) : bytes := [u / 256; u mod 256].

(* FileFormatter::encode_utf16(data, u16_encoder) *)
Definition encode_utf16 (u16_encoder : N -> bytes) (t : text) : bytes :=
  flat_map u16_encoder (utf16_units t).
Definition encode_utf16le : text -> bytes := encode_utf16 u16_le.
Definition encode_utf16be : text -> bytes := encode_utf16 u16_be.

(* bytes -> code units; None on an odd number of bytes (encoding_rs: trailing byte = malformed).
   Values >= 256 are not bytes and are rejected (cannot happen for real input). *)
Fixpoint units_of_bytes (le : bool) (l : bytes) : option (list N) :=
  match l with
  | [] => Some []
  | a :: b :: r =>
    if (a <? 256) && (b <? 256)
    then ocons (if le then a + 256 * b else 256 * a + b) (units_of_bytes le r)
    else None
  | [_] => None
  end.

Definition is_high (u : N) : bool := (55296 <=? u) && (u <=? 56319).
Definition is_low (u : N) : bool := (56320 <=? u) && (u <=? 57343).

(* code units -> scalars; None on a lone high surrogate, a lone low surrogate, or a high
   surrogate not followed by a low one (each is "malformed" for encoding_rs) *)
Fixpoint utf16_scalars (us : list N) : option text :=
  match us with
  | [] => Some []
  | u :: r =>
    if is_high u then
      match r with
      | v :: r' =>
        if is_low v then ocons (65536 + (u - 55296) * 1024 + (v - 56320)) (utf16_scalars r')
        else None
      | [] => None
      end
    else if is_low u then None
    else ocons u (utf16_scalars r)
  end.

Definition utf16_decode (le : bool) (b : bytes) : option text :=
  match units_of_bytes le b with Some us => utf16_scalars us | None => None end.
Definition utf16le_decode : bytes -> option text := utf16_decode true.
Definition utf16be_decode : bytes -> option text := utf16_decode false.

(* ------------------------------------------------------------------ *)
(* encodings and BOM sniffing *)

(* `Legacy id` stands for every other encoding_rs encoding (windows-125x, Shift_JIS, GBK, ...).
   The encoding_rs `replacement` encoding (labels iso-2022-kr, hz-gb-2312, ...) is the Legacy instance
   whose decoder accepts only the empty input and whose encoder always fails: it is the only
   encoding besides UTF-16LE/BE with output_encoding() <> self, i.e. the only one that reaches the
   `ErrorKind::Unsupported` branch of `encode`; the model abstracts the error kind (None). *)
Inductive enc := Utf8 | Utf16le | Utf16be | Legacy (id : nat).

Definition is_utf (e : enc) : bool := match e with Legacy _ => false | _ => true end.

Definition bom_utf8 : bytes := [239; 187; 191].
Definition bom_utf16le : bytes := [255; 254].
Definition bom_utf16be : bytes := [254; 255].

(* encoding_rs Encoding::for_bom: EF BB BF, then FF FE, then FE FF *)
Definition for_bom (buf : bytes) : option (enc * nat) :=
  if is_prefix bom_utf8 buf then Some (Utf8, 3%nat)
  else if is_prefix bom_utf16le buf then Some (Utf16le, 2%nat)
  else if is_prefix bom_utf16be buf then Some (Utf16be, 2%nat)
  else None.

Definition bom_bytes (bom : option bytes) : bytes := match bom with Some b => b | None => [] end.

Section Legacy.
  (* External: encoding_rs decoders/encoders of the non-UTF encodings, indexed by an opaque id.
     legacy_decode id b = None  iff decode_without_bom_handling reports a replacement (malformed);
     legacy_encode id t = None  iff Encoding::encode reports an unmappable character
                                (or, for `replacement`, has no encoder).
     No contract is assumed anywhere in the Model. *)
  Variable legacy_decode : nat -> bytes -> option text.
  Variable legacy_encode : nat -> text -> option bytes.

  (* encoding.decode_without_bom_handling(contents), with the `replacements` flag as None *)
  Definition decode_with (e : enc) (body : bytes) : option text :=
    match e with
    | Utf8 => utf8_decode body
    | Utf16le => utf16le_decode body
    | Utf16be => utf16be_decode body
    | Legacy id => legacy_decode id body
    end.

  (* the first `match` of decode_file: (encoding, bom, contents) *)
  Definition select_encoding (configured : enc) (buf : bytes) : enc * option bytes * bytes :=
    match for_bom buf with
    | Some (e, n) => (e, Some (firstn n buf), skipn n buf)
    | None => (configured, None, buf)
    end.

  (* FileFormatter::decode_file, after read_to_end has filled buf.
     None = bail!("... has malformed sequences ..."). *)
  Definition decode_file (configured : enc) (buf : bytes) : option (option bytes * enc * text) :=
    let '(e, bom, body) := select_encoding configured buf in
    match decode_with e body with
    | Some t => Some (bom, e, t)
    | None => None
    end.

  (* FileFormatter::encode.  output_encoding() == encoding holds for Utf8 and every Legacy encoding
     except `replacement` (see above) -> the encoding's own encoder; UTF-16BE/LE -> hand-written
     encoders, which cannot fail.  The final `Unsupported` branch is unreachable for Utf8/Utf16le/
     Utf16be and is folded into legacy_encode = None for `replacement`. *)
  Definition encode_with (e : enc) (t : text) : option bytes :=
    match e with
    | Utf8 => Some (utf8_encode t)
    | Utf16be => Some (encode_utf16be t)
    | Utf16le => Some (encode_utf16le t)
    | Legacy id => legacy_encode id t
    end.

  (* The byte string FileFormatter::write hands to its writer (bom, then encoded data); None = the
     `encode(...)?.` at its top failed, in which case nothing at all is written. *)
  Definition write_bytes (e : enc) (bom : option bytes) (t : text) : option bytes :=
    match encode_with e t with
    | Some b => Some (bom_bytes bom ++ b)
    | None => None
    end.
End Legacy.
