(* Model/Reconstruct.v — core/src/defaults/reconstructor.rs: DelphiLogicalLinesReconstructor::reconstruct *)
From PasfmtVerif Require Export Model.Token.

(* the whitespace emitted in front of one token; must_break = previous token was a `//` comment *)
(* `ws.contains(['\n', '\r'])` *)
Definition has_break (ws : bytes) : bool := contains_byte 10 ws || contains_byte 13 ws.

Definition emit_ws (rs : rsettings) (must_break : bool) (p : ftoken) : bytes :=
  let (tok, f) := p in
  let eof := is_eof (t_ty tok) in
  if f_ignored f then
    (if must_break && negb (has_break (t_ws tok)) && negb eof then rs_newline rs else [])
    ++ t_ws tok
  else
    let nls := if must_break && (f_nl f =? 0) && negb eof then 1 else f_nl f in
    nrepeat nls (rs_newline rs) ++ nrepeat (f_ind f) (rs_indent rs)
    ++ nrepeat (f_cont f) (rs_cont rs) ++ nrepeat (f_sp f) [32].

Fixpoint recon (rs : rsettings) (must_break : bool) (l : list ftoken) : bytes :=
  match l with
  | [] => []
  | p :: r => emit_ws rs must_break p ++ t_content (fst p) ++ recon rs (is_sl_comment (t_ty (fst p))) r
  end.

Definition reconstruct (rs : rsettings) (l : list ftoken) : bytes := recon rs false l.
