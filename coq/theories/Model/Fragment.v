(* Model/Fragment.v — a fragment of well-formed Delphi as token sequences (as the lexer produces them:
   no comments, no directives, one pass), with the logical lines the parser is expected to produce.
     stmts ::= ε | Identifier `;` stmts | Identifier `:=` Identifier `;` stmts | `begin` stmts `end` `;` stmts
             | `repeat` stmts `until` Identifier `;` stmts | `try` stmts `finally` stmts `end` `;` stmts
     prog  ::= `begin` stmts `end` `.` Eof *)
From PasfmtVerif Require Export Model.ParserGrammar.
Local Open Scope nat_scope.

Inductive stmts : Set :=
  | SNil
  | SSimple (rest : stmts)                 (* Identifier ; *)
  | SAssign (rest : stmts)                 (* Identifier := Identifier ; *)
  | SBlock (body rest : stmts)             (* begin body end ; *)
  | SRepeat (body rest : stmts)            (* repeat body until Identifier ; *)
  | STry (body fin rest : stmts).          (* try body finally fin end ; *)

Definition tI := RTT_Identifier.
Definition tSemi := RTT_Op OK_Semicolon.
Definition tAssign := RTT_Op OK_Assign.
Definition tDot := RTT_Op OK_Dot.
Definition tBegin := RTT_Keyword KK_Begin.
Definition tEnd := RTT_Keyword KK_End.
Definition tRepeat := RTT_Keyword KK_Repeat.
Definition tUntil := RTT_Keyword KK_Until.
Definition tTry := RTT_Keyword KK_Try.
Definition tFinally := RTT_Keyword KK_Finally.

Fixpoint render (ss : stmts) : list RawTokenType :=
  match ss with
  | SNil => []
  | SSimple r => tI :: tSemi :: render r
  | SAssign r => tI :: tAssign :: tI :: tSemi :: render r
  | SBlock b r => tBegin :: render b ++ tEnd :: tSemi :: render r
  | SRepeat b r => tRepeat :: render b ++ tUntil :: tI :: tSemi :: render r
  | STry b c r => tTry :: render b ++ tFinally :: render c ++ tEnd :: tSemi :: render r
  end.
Definition render_prog (ss : stmts) : list RawTokenType := tBegin :: render ss ++ [tEnd; tDot; RTT_Eof].

(* the level of a line at nesting depth d (the parser clamps to u16) *)
Definition lvl (d : Z) : N := clamp_u16 d.

(* the non-empty logical lines of a statement list whose first token has index k, at depth d *)
Fixpoint expected (d : Z) (k : nat) (ss : stmts) : list lline :=
  match ss with
  | SNil => []
  | SSimple r => mkLine LLT_Unknown (lvl d) None [k; k + 1] :: expected d (k + 2) r
  | SAssign r => mkLine LLT_Assignment (lvl d) None [k; k + 1; k + 2; k + 3] :: expected d (k + 4) r
  | SBlock b r =>
      let e := k + 1 + length (render b) in
      mkLine LLT_Unknown (lvl d) None [k] :: expected (d + 1) (k + 1) b
      ++ mkLine LLT_Unknown (lvl d) None [e; e + 1] :: expected d (e + 2) r
  | SRepeat b r =>
      let e := k + 1 + length (render b) in
      mkLine LLT_Unknown (lvl d) None [k] :: expected (d + 1) (k + 1) b
      ++ mkLine LLT_Unknown (lvl d) None [e; e + 1; e + 2] :: expected d (e + 3) r
  | STry b c r =>
      let m := k + 1 + length (render b) in
      let e := m + 1 + length (render c) in
      mkLine LLT_Unknown (lvl d) None [k] :: expected (d + 1) (k + 1) b
      ++ mkLine LLT_Unknown (lvl d) None [m] :: expected (d + 1) (m + 1) c
      ++ mkLine LLT_Unknown (lvl d) None [e; e + 1] :: expected d (e + 2) r
  end.
Definition expected_prog (ss : stmts) : list lline :=
  let e := 1 + length (render ss) in
  mkLine LLT_Unknown 0%N None [0] :: expected 1 1 ss
  ++ [mkLine LLT_Unknown 0%N None [e; e + 1]; mkLine LLT_Eof 0%N None [e + 2]].
