(* Model/Fragment.v — a fragment of well-formed Delphi as token sequences (as the lexer produces them:
   no comments, no directives, one pass), with the logical lines the parser is expected to produce.
     stmt  ::= Identifier | Identifier `:=` Identifier | `begin` stmts `end` | `repeat` stmts `until` Identifier
             | `try` stmts `finally` stmts `end` | `try` stmts `except` stmts `end` | `try` stmts `except` handlers `end`
             | `if` Identifier `then` stmt | `if` Identifier `then` stmt `else` stmt | `while` Identifier `do` stmt
             | `case` Identifier `of` arms `end` | `case` Identifier `of` arms `else` stmts `end`
     stmts ::= ε | stmt `;` stmts
     arms  ::= ε | Identifier `:` stmt `;` arms
     handlers ::= ε | `on` Identifier `:` Identifier `do` stmt `;` handlers      (`on` is lexed as IdentifierOrKeyword)
     prog  ::= `begin` stmts `end` `.` Eof
   (`wf`: the then-branch of an if-then-else must not end in an if without else — otherwise the tokens are
   those of a different program.)
   The expected lines are given at the level of one pass (`pexpected`: with the empty lines the parser
   leaves behind and with parents as pass-line indices) and finalised as parse_file does (`finalize`:
   empty lines dropped, parents renumbered). *)
From PasfmtVerif Require Export Model.ParserGrammar.
Local Open Scope nat_scope.

Inductive stmt : Set :=
  | TSimple                                (* Identifier *)
  | TAssign                                (* Identifier := Identifier *)
  | TBlock (b : stmts)                     (* begin b end *)
  | TRepeat (b : stmts)                    (* repeat b until Identifier *)
  | TTry (b c : stmts)                     (* try b finally c end *)
  | TTryExcept (b c : stmts)               (* try b except c end *)
  | TTryOn (b : stmts) (h : handlers)      (* try b except h end *)
  | TIf (c : stmt)                         (* if Identifier then c *)
  | TIfElse (c1 c2 : stmt)                 (* if Identifier then c1 else c2 *)
  | TWhile (c : stmt)                      (* while Identifier do c *)
  | TCase (a : arms)                       (* case Identifier of a end *)
  | TCaseElse (a : arms) (e : stmts)       (* case Identifier of a else e end *)
with stmts : Set :=
  | SNil
  | SCons (c : stmt) (rest : stmts)        (* c ; rest *)
with arms : Set :=
  | ANil
  | ACons (c : stmt) (rest : arms)         (* Identifier : c ; rest *)
with handlers : Set :=
  | HNil
  | HCons (c : stmt) (rest : handlers).    (* on Identifier : Identifier do c ; rest *)

Definition tI := RTT_Identifier.
Definition tSemi := RTT_Op OK_Semicolon.
Definition tAssign := RTT_Op OK_Assign.
Definition tDot := RTT_Op OK_Dot.
Definition tBegin := RTT_Keyword KK_Begin.
Definition tEnd := RTT_Keyword KK_End.
Definition tRepeat := RTT_Keyword KK_Repeat.
Definition tUntil := RTT_Keyword KK_Until.
Definition tTry := RTT_Keyword KK_Try.
Definition tFinally := RTT_Keyword KK_Finally.
Definition tExcept := RTT_Keyword KK_Except.
Definition tIf := RTT_Keyword KK_If.
Definition tThen := RTT_Keyword KK_Then.
Definition tElse := RTT_Keyword KK_Else.
Definition tWhile := RTT_Keyword KK_While.
Definition tDo := RTT_Keyword KK_Do.
Definition tCase := RTT_Keyword KK_Case.
Definition tOf := RTT_Keyword KK_Of.
Definition tColon := RTT_Op OK_Colon.
Definition tOn := RTT_IdentifierOrKeyword KK_On.
(* the final type of a token: the parser re-types contextual keywords in keyword position *)
Definition tVar := RTT_Keyword (KK_Var DK_Other).
Definition tConst := RTT_Keyword (KK_Const DK_Other).
Definition tEq := RTT_Op (OK_Equal EK_Comp).
Definition tType := RTT_Keyword KK_Type.
Definition tRecord := RTT_Keyword KK_Record.
Definition tClass := RTT_Keyword KK_Class.
Definition tPrivate := RTT_IdentifierOrKeyword KK_Private.
Definition tPublic := RTT_IdentifierOrKeyword KK_Public.
Definition retype (t : RawTokenType) : RawTokenType :=
  match t with
  | RTT_IdentifierOrKeyword KK_On => RTT_Keyword KK_On
  | RTT_Keyword (KK_Var DK_Other) => RTT_Keyword (KK_Var DK_Section)       (* the keyword of a var section *)
  | RTT_Keyword (KK_Const DK_Other) => RTT_Keyword (KK_Const DK_Section)
  | RTT_Op (OK_Equal EK_Comp) => RTT_Op (OK_Equal EK_Decl)                 (* the `=` of a constant or type declaration *)
  | RTT_IdentifierOrKeyword KK_Private => RTT_Keyword KK_Private           (* the keyword of a visibility section *)
  | RTT_IdentifierOrKeyword KK_Public => RTT_Keyword KK_Public
  | _ => t
  end.

Fixpoint render_stmt (c : stmt) : list RawTokenType :=
  match c with
  | TSimple => [tI]
  | TAssign => [tI; tAssign; tI]
  | TBlock b => tBegin :: render b ++ [tEnd]
  | TRepeat b => tRepeat :: render b ++ [tUntil; tI]
  | TTry b c => tTry :: render b ++ tFinally :: render c ++ [tEnd]
  | TTryExcept b c => tTry :: render b ++ tExcept :: render c ++ [tEnd]
  | TTryOn b h => tTry :: render b ++ tExcept :: render_handlers h ++ [tEnd]
  | TIf c => tIf :: tI :: tThen :: render_stmt c
  | TIfElse c1 c2 => tIf :: tI :: tThen :: render_stmt c1 ++ tElse :: render_stmt c2
  | TWhile c => tWhile :: tI :: tDo :: render_stmt c
  | TCase a => tCase :: tI :: tOf :: render_arms a ++ [tEnd]
  | TCaseElse a e => tCase :: tI :: tOf :: render_arms a ++ tElse :: render e ++ [tEnd]
  end
with render (ss : stmts) : list RawTokenType :=
  match ss with
  | SNil => []
  | SCons c r => render_stmt c ++ tSemi :: render r
  end
with render_arms (a : arms) : list RawTokenType :=
  match a with
  | ANil => []
  | ACons c r => tI :: tColon :: render_stmt c ++ tSemi :: render_arms r
  end
with render_handlers (h : handlers) : list RawTokenType :=
  match h with
  | HNil => []
  | HCons c r => tOn :: tI :: tColon :: tI :: tDo :: render_stmt c ++ tSemi :: render_handlers r
  end.
Definition render_prog (ss : stmts) : list RawTokenType := tBegin :: render ss ++ [tEnd; tDot; RTT_Eof].

(* a statement that cannot take a following `else` for itself *)
Fixpoint closed (c : stmt) : bool :=
  match c with
  | TIf _ => false
  | TIfElse _ c2 => closed c2
  | TWhile c => closed c
  | _ => true
  end.
Fixpoint wf_stmt (c : stmt) : bool :=
  match c with
  | TSimple | TAssign => true
  | TBlock b | TRepeat b => wf b
  | TTry b c | TTryExcept b c => wf b && wf c
  | TTryOn b h => wf b && wf_handlers h
  | TIf c | TWhile c => wf_stmt c
  | TIfElse c1 c2 => closed c1 && wf_stmt c1 && wf_stmt c2
  | TCase a => wf_arms a
  | TCaseElse a e => wf_arms a && wf e
  end
with wf (ss : stmts) : bool :=
  match ss with SNil => true | SCons c r => wf_stmt c && wf r end
with wf_arms (a : arms) : bool :=
  match a with ANil => true | ACons c r => wf_stmt c && wf_arms r end
with wf_handlers (h : handlers) : bool :=
  match h with HNil => true | HCons c r => wf_stmt c && wf_handlers r end.

(* the level of a line at nesting depth d (the parser clamps to u16) *)
Definition lvl (d : Z) : N := clamp_u16 d.
(* the empty line the parser leaves behind after the child lines of a body *)
Definition stray : lline := mkLine LLT_Unknown (lvl 1) None [].

(* The lines of one pass.
   sexpected par d k li sm c: the statement c from token k on, its first line having index li, at depth d,
   inside the child line context `par` (None = not inside a child line); sm = the index of the `;` that
   ends the statement (it joins the last line of the statement), or nothing.
   A body of if/while/case-arm is a child line context: its lines have parent (header line, then/else/do/
   colon token), count their levels from 1, and are followed by one empty line. *)
Fixpoint sexpected (par : option (nat * nat)) (d : Z) (k li : nat) (sm : list nat) (c : stmt) : list lline :=
  match c with
  | TSimple => [mkLine LLT_Unknown (lvl d) par (k :: sm)]
  | TAssign => [mkLine LLT_Assignment (lvl d) par ([k; k + 1; k + 2] ++ sm)]
  | TBlock b =>
      let lb := pexpected par (d + 1) (k + 1) (li + 1) b in
      let e := k + 1 + length (render b) in
      mkLine LLT_Unknown (lvl d) par [k] :: lb ++ [mkLine LLT_Unknown (lvl d) par (e :: sm)]
  | TRepeat b =>
      let lb := pexpected par (d + 1) (k + 1) (li + 1) b in
      let e := k + 1 + length (render b) in
      mkLine LLT_Unknown (lvl d) par [k] :: lb ++ [mkLine LLT_Unknown (lvl d) par ([e; e + 1] ++ sm)]
  | TTry b c | TTryExcept b c =>
      let lb := pexpected par (d + 1) (k + 1) (li + 1) b in
      let m := k + 1 + length (render b) in
      let lc := pexpected par (d + 1) (m + 1) (li + 1 + length lb + 1) c in
      let e := m + 1 + length (render c) in
      mkLine LLT_Unknown (lvl d) par [k] :: lb ++ mkLine LLT_Unknown (lvl d) par [m] :: lc
      ++ [mkLine LLT_Unknown (lvl d) par (e :: sm)]
  | TTryOn b h =>
      let lb := pexpected par (d + 1) (k + 1) (li + 1) b in
      let m := k + 1 + length (render b) in
      let lh := hexpected par (d + 1) (m + 1) (li + 1 + length lb + 1) h in
      let e := m + 1 + length (render_handlers h) in
      mkLine LLT_Unknown (lvl d) par [k] :: lb ++ mkLine LLT_Unknown (lvl d) par [m] :: lh
      ++ [mkLine LLT_Unknown (lvl d) par (e :: sm)]
  | TIf c | TWhile c =>
      mkLine LLT_Unknown (lvl d) par [k; k + 1; k + 2] :: sexpected (Some (li, k + 2)) 1 (k + 3) (li + 1) sm c ++ [stray]
  | TIfElse c1 c2 =>
      let el := k + 3 + length (render_stmt c1) in
      let l1 := sexpected (Some (li, k + 2)) 1 (k + 3) (li + 1) [] c1 ++ [stray] in
      mkLine LLT_Unknown (lvl d) par [k; k + 1; k + 2; el] :: l1
      ++ sexpected (Some (li, el)) 1 (el + 1) (li + 1 + length l1) sm c2 ++ [stray]
  | TCase a =>
      mkLine LLT_CaseHeader (lvl d) par [k; k + 1; k + 2]
      :: arms_lines par d (k + 3) (li + 1) a (fun _ => [])
           (fun k' li' pl => mkLine LLT_Unknown (lvl d) par (k' :: sm) :: pl)
  | TCaseElse a e =>
      mkLine LLT_CaseHeader (lvl d) par [k; k + 1; k + 2]
      :: arms_lines par d (k + 3) (li + 1) a (fun _ => [])
           (fun k' li' pl =>
              let le := pexpected par (d + 1) (k' + 1) (li' + 1 + length pl) e in
              let ke := k' + 1 + length (render e) in
              mkLine LLT_Unknown (lvl d) par [k'] :: pl ++ le ++ [mkLine LLT_Unknown (lvl d) par (ke :: sm)])
  end
with pexpected (par : option (nat * nat)) (d : Z) (k li : nat) (ss : stmts) : list lline :=
  match ss with
  | SNil => []
  | SCons c r =>
      let e := k + length (render_stmt c) in                            (* the `;` *)
      let sl := sexpected par d k li [e] c in
      sl ++ pexpected par d (e + 1) (li + length sl) r
  end
(* The arms of a case statement from token k on, the first arm line having index li.  The parser finishes
   the arm line `Identifier :` BEFORE it opens the child line context of the arm's body, so the line that
   follows an arm line is the NEXT arm line (or the `end`/`else` line), and the child lines of the arm come
   after that one: `pend i` are the child lines still owed by the previous arm (placed at index i),
   `tail k' li' pl` the lines from the `end`/`else` line (token k', index li') on, with the child lines pl
   of the last arm placed after that line. *)
with arms_lines (par : option (nat * nat)) (d : Z) (k li : nat) (a : arms) (pend : nat -> list lline)
                (tail : nat -> nat -> list lline -> list lline) : list lline :=
  match a with
  | ANil => tail k li (pend (li + 1))
  | ACons c a' =>
      let e := k + 2 + length (render_stmt c) in                        (* the `;` *)
      mkLine LLT_CaseArm (lvl (d + 1)) par [k; k + 1] :: pend (li + 1)
      ++ arms_lines par d (e + 1) (li + 1 + length (pend (li + 1))) a'
           (fun i => sexpected (Some (li, k + 1)) 1 (k + 2) i [e] c ++ [stray]) tail
  end
(* the exception handlers of an except block: a header line `on E : T do`, its body as child lines *)
with hexpected (par : option (nat * nat)) (d : Z) (k li : nat) (h : handlers) : list lline :=
  match h with
  | HNil => []
  | HCons c r =>
      let e := k + 5 + length (render_stmt c) in                        (* the `;` *)
      let sl := mkLine LLT_Unknown (lvl d) par [k; k + 1; k + 2; k + 3; k + 4]
                :: sexpected (Some (li, k + 4)) 1 (k + 5) (li + 1) [e] c ++ [stray] in
      sl ++ hexpected par d (e + 1) (li + length sl) r
  end.
Definition pexpected_prog (ss : stmts) : list lline :=
  let lb := pexpected None 1 1 1 ss in
  let e := 1 + length (render ss) in
  mkLine LLT_Unknown 0%N None [0] :: lb
  ++ [mkLine LLT_Unknown 0%N None [e; e + 1]; mkLine LLT_Eof 0%N None [e + 2]].

(* parse_file's consolidation on lines without a shared token: empty lines are dropped and the line
   index of every parent becomes the number of non-empty lines before it *)
Definition nonempty_line (l : lline) : bool := match ll_toks l with [] => false | _ :: _ => true end.
Definition finalize (pl : list lline) : list lline :=
  map (fun l => mkLine (ll_type l) (ll_level l)
                  (match ll_parent l with
                   | Some (i, t) => Some (length (filter nonempty_line (firstn i pl)), t)
                   | None => None end) (ll_toks l))
      (filter nonempty_line pl).
Definition expected_prog (ss : stmts) : list lline := finalize (pexpected_prog ss).

(* programs without `if`/`while`/`case` (no child lines) *)
Fixpoint child_free_stmt (c : stmt) : bool :=
  match c with
  | TSimple | TAssign => true
  | TBlock b | TRepeat b => child_free b
  | TTry b c | TTryExcept b c => child_free b && child_free c
  | _ => false
  end
with child_free (ss : stmts) : bool :=
  match ss with SNil => true | SCons c r => child_free_stmt c && child_free r end.

(* The bodies of if/while statements, case arms and exception handlers as token ranges
   (parent token, first token, end): the body occupies the tokens first .. end-1, the parent token is the
   then/else/do/colon in front of it.  A line has a parent iff its first token lies in one of these ranges. *)
Fixpoint spans_stmt (k : nat) (c : stmt) : list (nat * nat * nat) :=
  match c with
  | TSimple | TAssign => []
  | TBlock b | TRepeat b => spans (k + 1) b
  | TTry b c | TTryExcept b c => spans (k + 1) b ++ spans (k + 1 + length (render b) + 1) c
  | TTryOn b h => spans (k + 1) b ++ spans_handlers (k + 1 + length (render b) + 1) h
  | TIf c | TWhile c => (k + 2, k + 3, k + 3 + length (render_stmt c)) :: spans_stmt (k + 3) c
  | TIfElse c1 c2 =>
      let el := k + 3 + length (render_stmt c1) in
      (k + 2, k + 3, el) :: spans_stmt (k + 3) c1 ++ (el, el + 1, el + 1 + length (render_stmt c2)) :: spans_stmt (el + 1) c2
  | TCase a => spans_arms (k + 3) a
  | TCaseElse a e => spans_arms (k + 3) a ++ spans (k + 3 + length (render_arms a) + 1) e
  end
with spans (k : nat) (ss : stmts) : list (nat * nat * nat) :=
  match ss with
  | SNil => []
  | SCons c r => spans_stmt k c ++ spans (k + length (render_stmt c) + 1) r
  end
with spans_arms (k : nat) (a : arms) : list (nat * nat * nat) :=
  match a with
  | ANil => []
  | ACons c r => (k + 1, k + 2, k + 2 + length (render_stmt c)) :: spans_stmt (k + 2) c ++ spans_arms (k + 2 + length (render_stmt c) + 1) r
  end
with spans_handlers (k : nat) (h : handlers) : list (nat * nat * nat) :=
  match h with
  | HNil => []
  | HCons c r => (k + 4, k + 5, k + 5 + length (render_stmt c)) :: spans_stmt (k + 5) c ++ spans_handlers (k + 5 + length (render_stmt c) + 1) r
  end.
Definition body_spans (ss : stmts) : list (nat * nat * nat) := spans 1 ss.
Definition in_spans (sp : list (nat * nat * nat)) (f : nat) : bool :=
  existsb (fun x => let '(_, a, b) := x in (a <=? f) && (f <? b)) sp.

(* ------------------------------------------------------------------ *)
(* declaration sections in front of the main block:
     unit  ::= decl* `begin` stmts `end` `.` Eof
     decl  ::= `var` (Identifier `:` Identifier `;`)*  |  `const` (Identifier `=` Identifier `;`)*
   every member makes one line of type Declaration, one level deeper than the line of the section keyword *)
Inductive decl : Set := DVar (n : nat) | DConst (n : nat).
Fixpoint render_members (m : list RawTokenType) (n : nat) : list RawTokenType :=
  match n with O => [] | S n' => m ++ render_members m n' end.
Definition render_decl (dc : decl) : list RawTokenType :=
  match dc with
  | DVar n => tVar :: render_members [tI; tColon; tI; tSemi] n
  | DConst n => tConst :: render_members [tI; tEq; tI; tSemi] n
  end.
Fixpoint render_decls (ds : list decl) : list RawTokenType :=
  match ds with [] => [] | dc :: r => render_decl dc ++ render_decls r end.
Definition render_unit (ds : list decl) (ss : stmts) : list RawTokenType := render_decls ds ++ render_prog ss.
Fixpoint member_lines (k n : nat) : list lline :=
  match n with O => [] | S n' => mkLine LLT_Declaration 1%N None [k; k + 1; k + 2; k + 3] :: member_lines (k + 4) n' end.
Definition decl_n (dc : decl) : nat := match dc with DVar n | DConst n => n end.
Fixpoint decl_lines (k : nat) (ds : list decl) : list lline :=
  match ds with
  | [] => []
  | dc :: r => mkLine LLT_Unknown 0%N None [k] :: member_lines (k + 1) (decl_n dc) ++ decl_lines (k + 1 + 4 * decl_n dc) r
  end.
(* the main block from token K on, its first line having index LI *)
Definition main_lines (K LI : nat) (ss : stmts) : list lline :=
  let lb := pexpected None 1 (K + 1) (LI + 1) ss in
  let e := K + 1 + length (render ss) in
  mkLine LLT_Unknown 0%N None [K] :: lb
  ++ [mkLine LLT_Unknown 0%N None [e; e + 1]; mkLine LLT_Eof 0%N None [e + 2]].
Definition pexpected_unit (ds : list decl) (ss : stmts) : list lline :=
  let dl := decl_lines 0 ds in dl ++ main_lines (length (render_decls ds)) (length dl) ss.
Definition expected_unit (ds : list decl) (ss : stmts) : list lline := finalize (pexpected_unit ds ss).

(* ------------------------------------------------------------------ *)
(* units with type sections as well (the definitions above stay as they are; `udecl` extends `decl`):
     unit2 ::= {udecl} `begin` stmts `end` `.` Eof
     udecl ::= `var` {field}  |  `const` {Identifier `=` Identifier `;`}  |  `type` {tdef}
     field ::= Identifier `:` Identifier `;`
     tdef  ::= Identifier `=` `record` {field} `end` `;`
            |  Identifier `=` `class` {field} {(`private` | `public`) {field}} `end` `;`
   every member of a section makes one line of type Declaration one level deeper than the line of the section
   keyword; the fields of a record or class are one level deeper than its `Identifier = record` line, the
   visibility keywords and the closing `end ;` are at the level of that line *)
Inductive tdef : Set := TRec (n : nat) | TCls (n0 : nat) (vs : list (bool * nat)).
Inductive udecl : Set := UVar (n : nat) | UConst (n : nat) | UType (ts : list tdef).
Definition render_fields (n : nat) : list RawTokenType := render_members [tI; tColon; tI; tSemi] n.
Fixpoint render_vsecs (vs : list (bool * nat)) : list RawTokenType :=
  match vs with [] => [] | (pv, n) :: r => (if pv : bool then tPrivate else tPublic) :: render_fields n ++ render_vsecs r end.
Definition render_tdef (td : tdef) : list RawTokenType :=
  match td with
  | TRec n => tI :: tEq :: tRecord :: render_fields n ++ [tEnd; tSemi]
  | TCls n0 vs => tI :: tEq :: tClass :: render_fields n0 ++ render_vsecs vs ++ [tEnd; tSemi]
  end.
Fixpoint render_tdefs (ts : list tdef) : list RawTokenType :=
  match ts with [] => [] | td :: r => render_tdef td ++ render_tdefs r end.
Definition render_udecl (dc : udecl) : list RawTokenType :=
  match dc with
  | UVar n => tVar :: render_fields n
  | UConst n => tConst :: render_members [tI; tEq; tI; tSemi] n
  | UType ts => tType :: render_tdefs ts
  end.
Fixpoint render_udecls (ds : list udecl) : list RawTokenType :=
  match ds with [] => [] | dc :: r => render_udecl dc ++ render_udecls r end.
Definition render_unit2 (ds : list udecl) (ss : stmts) : list RawTokenType := render_udecls ds ++ render_prog ss.
(* n members of four tokens each, from token k on, at level lv *)
Fixpoint member_lines_at (lv : N) (k n : nat) : list lline :=
  match n with O => [] | S n' => mkLine LLT_Declaration lv None [k; k + 1; k + 2; k + 3] :: member_lines_at lv (k + 4) n' end.
Fixpoint vsec_lines (k : nat) (vs : list (bool * nat)) : list lline :=
  match vs with
  | [] => []
  | (_, n) :: r => mkLine LLT_Unknown 1%N None [k] :: member_lines_at 2%N (k + 1) n ++ vsec_lines (k + 1 + 4 * n) r
  end.
Definition tdef_lines (k : nat) (td : tdef) : list lline :=
  let e := k + length (render_tdef td) - 2 in
  mkLine LLT_Declaration 1%N None [k; k + 1; k + 2]
  :: match td with
     | TRec n => member_lines_at 2%N (k + 3) n
     | TCls n0 vs => member_lines_at 2%N (k + 3) n0 ++ vsec_lines (k + 3 + 4 * n0) vs
     end
  ++ [mkLine LLT_Unknown 1%N None [e; e + 1]].
Fixpoint tdefs_lines (k : nat) (ts : list tdef) : list lline :=
  match ts with [] => [] | td :: r => tdef_lines k td ++ tdefs_lines (k + length (render_tdef td)) r end.
Definition usection_lines (k : nat) (dc : udecl) : list lline :=
  match dc with UVar n | UConst n => member_lines_at 1%N k n | UType ts => tdefs_lines k ts end.
Fixpoint udecl_lines (k : nat) (ds : list udecl) : list lline :=
  match ds with
  | [] => []
  | dc :: r => mkLine LLT_Unknown 0%N None [k] :: usection_lines (k + 1) dc ++ udecl_lines (k + length (render_udecl dc)) r
  end.
Definition pexpected_unit2 (ds : list udecl) (ss : stmts) : list lline :=
  let dl := udecl_lines 0 ds in dl ++ main_lines (length (render_udecls ds)) (length dl) ss.
Definition expected_unit2 (ds : list udecl) (ss : stmts) : list lline := finalize (pexpected_unit2 ds ss).
