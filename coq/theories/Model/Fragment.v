(* Model/Fragment.v — a fragment of well-formed Delphi as token sequences (as the lexer produces them:
   no comments, no directives, one pass), with the logical lines the parser is expected to produce.
     stmts ::= ε | Identifier `;` stmts | Identifier `:=` Identifier `;` stmts | `begin` stmts `end` `;` stmts
             | `repeat` stmts `until` Identifier `;` stmts | `try` stmts `finally` stmts `end` `;` stmts
             | `try` stmts `except` stmts `end` `;` stmts
             | `if` Identifier `then` body `;` stmts | `if` Identifier `then` body `else` body `;` stmts
             | `while` Identifier `do` body `;` stmts
             | `case` Identifier `of` arms `end` `;` stmts | `case` Identifier `of` arms `else` stmts `end` `;` stmts
     arms  ::= ε | Identifier `:` body `;` arms
     body  ::= Identifier | Identifier `:=` Identifier | `begin` stmts `end`
     prog  ::= `begin` stmts `end` `.` Eof
   The expected lines are given at the level of one pass (`pexpected`: with the empty lines the parser
   leaves behind and with parents as pass-line indices) and finalised as parse_file does (`finalize`:
   empty lines dropped, parents renumbered). *)
From PasfmtVerif Require Export Model.ParserGrammar.
Local Open Scope nat_scope.

Inductive stmts : Set :=
  | SNil
  | SSimple (rest : stmts)                 (* Identifier ; *)
  | SAssign (rest : stmts)                 (* Identifier := Identifier ; *)
  | SBlock (body rest : stmts)             (* begin body end ; *)
  | SRepeat (body rest : stmts)            (* repeat body until Identifier ; *)
  | STry (body fin rest : stmts)           (* try body finally fin end ; *)
  | STryExcept (body exc rest : stmts)     (* try body except exc end ; *)
  | SIf (c : tbody) (rest : stmts)         (* if Identifier then c ; *)
  | SIfElse (c1 c2 : tbody) (rest : stmts) (* if Identifier then c1 else c2 ; *)
  | SWhile (c : tbody) (rest : stmts)      (* while Identifier do c ; *)
  | SCase (a : arms) (rest : stmts)        (* case Identifier of a end ; *)
  | SCaseElse (a : arms) (e rest : stmts)  (* case Identifier of a else e end ; *)
with tbody : Set :=
  | TSimple                                (* Identifier *)
  | TAssign                                (* Identifier := Identifier *)
  | TBlock (b : stmts)                     (* begin b end *)
with arms : Set :=
  | ANil
  | ACons (c : tbody) (rest : arms).       (* Identifier : c ; *)

Definition tI := RTT_Identifier.
Definition tSemi := RTT_Op OK_Semicolon.
Definition tAssign := RTT_Op OK_Assign.
Definition tDot := RTT_Op OK_Dot.
Definition tBegin := RTT_Keyword KK_Begin.
Definition tEnd := RTT_Keyword KK_End.
Definition tRepeat := RTT_Keyword KK_Repeat.
Definition tUntil := RTT_Keyword KK_Until.
Definition tTry := RTT_Keyword KK_Try.
Definition tFinally := RTT_Keyword KK_Finally.
Definition tExcept := RTT_Keyword KK_Except.
Definition tIf := RTT_Keyword KK_If.
Definition tThen := RTT_Keyword KK_Then.
Definition tElse := RTT_Keyword KK_Else.
Definition tWhile := RTT_Keyword KK_While.
Definition tDo := RTT_Keyword KK_Do.
Definition tCase := RTT_Keyword KK_Case.
Definition tOf := RTT_Keyword KK_Of.
Definition tColon := RTT_Op OK_Colon.

Fixpoint render (ss : stmts) : list RawTokenType :=
  match ss with
  | SNil => []
  | SSimple r => tI :: tSemi :: render r
  | SAssign r => tI :: tAssign :: tI :: tSemi :: render r
  | SBlock b r => tBegin :: render b ++ tEnd :: tSemi :: render r
  | SRepeat b r => tRepeat :: render b ++ tUntil :: tI :: tSemi :: render r
  | STry b c r => tTry :: render b ++ tFinally :: render c ++ tEnd :: tSemi :: render r
  | STryExcept b c r => tTry :: render b ++ tExcept :: render c ++ tEnd :: tSemi :: render r
  | SIf c r => tIf :: tI :: tThen :: render_body c ++ tSemi :: render r
  | SIfElse c1 c2 r => tIf :: tI :: tThen :: render_body c1 ++ tElse :: render_body c2 ++ tSemi :: render r
  | SWhile c r => tWhile :: tI :: tDo :: render_body c ++ tSemi :: render r
  | SCase a r => tCase :: tI :: tOf :: render_arms a ++ tEnd :: tSemi :: render r
  | SCaseElse a e r => tCase :: tI :: tOf :: render_arms a ++ tElse :: render e ++ tEnd :: tSemi :: render r
  end
with render_body (c : tbody) : list RawTokenType :=
  match c with
  | TSimple => [tI]
  | TAssign => [tI; tAssign; tI]
  | TBlock b => tBegin :: render b ++ [tEnd]
  end
with render_arms (a : arms) : list RawTokenType :=
  match a with
  | ANil => []
  | ACons c r => tI :: tColon :: render_body c ++ tSemi :: render_arms r
  end.
Definition render_prog (ss : stmts) : list RawTokenType := tBegin :: render ss ++ [tEnd; tDot; RTT_Eof].

(* the level of a line at nesting depth d (the parser clamps to u16) *)
Definition lvl (d : Z) : N := clamp_u16 d.
Definition seqn (k m : nat) : list nat := seq k m.

(* The lines of one pass for a statement list whose first token has index k and whose first line has
   index li, at depth d, inside the child line context `par` (None = not inside a child line).
   `semi` (for bodies): the index of the `;` that take_separators_on_last_line appends to the last line
   of the body, if any. *)
Fixpoint pexpected (par : option (nat * nat)) (d : Z) (k li : nat) (ss : stmts) : list lline :=
  match ss with
  | SNil => []
  | SSimple r => mkLine LLT_Unknown (lvl d) par [k; k + 1] :: pexpected par d (k + 2) (li + 1) r
  | SAssign r => mkLine LLT_Assignment (lvl d) par [k; k + 1; k + 2; k + 3] :: pexpected par d (k + 4) (li + 1) r
  | SBlock b r =>
      let lb := pexpected par (d + 1) (k + 1) (li + 1) b in
      let e := k + 1 + length (render b) in
      mkLine LLT_Unknown (lvl d) par [k] :: lb
      ++ mkLine LLT_Unknown (lvl d) par [e; e + 1] :: pexpected par d (e + 2) (li + 1 + length lb + 1) r
  | SRepeat b r =>
      let lb := pexpected par (d + 1) (k + 1) (li + 1) b in
      let e := k + 1 + length (render b) in
      mkLine LLT_Unknown (lvl d) par [k] :: lb
      ++ mkLine LLT_Unknown (lvl d) par [e; e + 1; e + 2] :: pexpected par d (e + 3) (li + 1 + length lb + 1) r
  | STry b c r | STryExcept b c r =>
      let lb := pexpected par (d + 1) (k + 1) (li + 1) b in
      let m := k + 1 + length (render b) in
      let lc := pexpected par (d + 1) (m + 1) (li + 1 + length lb + 1) c in
      let e := m + 1 + length (render c) in
      mkLine LLT_Unknown (lvl d) par [k] :: lb
      ++ mkLine LLT_Unknown (lvl d) par [m] :: lc
      ++ mkLine LLT_Unknown (lvl d) par [e; e + 1] :: pexpected par d (e + 2) (li + 1 + length lb + 1 + length lc + 1) r
  | SIf c r =>
      (* header line li = [if x then], finished after its child lines *)
      let e := k + 3 + length (render_body c) in                      (* the `;` *)
      let lc := pexpected_body (Some (li, k + 2)) (k + 3) (li + 1) (Some e) c in
      mkLine LLT_Unknown (lvl d) par [k; k + 1; k + 2] :: lc ++ pexpected par d (e + 1) (li + 1 + length lc) r
  | SIfElse c1 c2 r =>
      let el := k + 3 + length (render_body c1) in                    (* the `else` *)
      let e := el + 1 + length (render_body c2) in                    (* the `;` *)
      let l1 := pexpected_body (Some (li, k + 2)) (k + 3) (li + 1) None c1 in
      let l2 := pexpected_body (Some (li, el)) (el + 1) (li + 1 + length l1) (Some e) c2 in
      mkLine LLT_Unknown (lvl d) par [k; k + 1; k + 2; el] :: l1 ++ l2 ++ pexpected par d (e + 1) (li + 1 + length l1 + length l2) r
  | SWhile c r =>
      let e := k + 3 + length (render_body c) in
      let lc := pexpected_body (Some (li, k + 2)) (k + 3) (li + 1) (Some e) c in
      mkLine LLT_Unknown (lvl d) par [k; k + 1; k + 2] :: lc ++ pexpected par d (e + 1) (li + 1 + length lc) r
  | SCase a r =>
      (* header line [case x of]; then the arms (see arms_lines); `end ;` makes one line at the level of the header *)
      mkLine LLT_CaseHeader (lvl d) par [k; k + 1; k + 2]
      :: arms_lines par d (k + 3) (li + 1) a (fun _ => [])
           (fun k' li' pl => mkLine LLT_Unknown (lvl d) par [k'; k' + 1] :: pl ++ pexpected par d (k' + 2) (li' + 1 + length pl) r)
  | SCaseElse a e r =>
      mkLine LLT_CaseHeader (lvl d) par [k; k + 1; k + 2]
      :: arms_lines par d (k + 3) (li + 1) a (fun _ => [])
           (fun k' li' pl =>
              let le := pexpected par (d + 1) (k' + 1) (li' + 1 + length pl) e in
              let ke := k' + 1 + length (render e) in
              mkLine LLT_Unknown (lvl d) par [k'] :: pl ++ le
              ++ mkLine LLT_Unknown (lvl d) par [ke; ke + 1] :: pexpected par d (ke + 2) (li' + 1 + length pl + length le + 1) r)
  end
(* the child lines of a body (parent p, levels counted from the parent), followed by the empty line the
   parser leaves behind *)
with pexpected_body (p : option (nat * nat)) (k li : nat) (semi : option nat) (c : tbody) : list lline :=
  let sm := match semi with Some e => [e] | None => [] end in
  match c with
  | TSimple => [mkLine LLT_Unknown (lvl 1) p (k :: sm); mkLine LLT_Unknown (lvl 1) None []]
  | TAssign => [mkLine LLT_Assignment (lvl 1) p ([k; k + 1; k + 2] ++ sm); mkLine LLT_Unknown (lvl 1) None []]
  | TBlock b =>
      let lb := pexpected p 2 (k + 1) (li + 1) b in
      let e := k + 1 + length (render b) in
      mkLine LLT_Unknown (lvl 1) p [k] :: lb ++ [mkLine LLT_Unknown (lvl 1) p (e :: sm); mkLine LLT_Unknown (lvl 1) None []]
  end
(* The arms of a case statement from token k on, the first arm line having index li.  The parser finishes
   the arm line `Identifier :` BEFORE it opens the child line context of the arm's body, so the line that
   follows an arm line is the NEXT arm line (or the `end`/`else` line), and the child lines of the arm come
   after that one: `pend i` are the child lines still owed by the previous arm (placed at index i),
   `tail k' li' pl` the lines from the `end`/`else` line (token k', index li') on, with the child lines pl
   of the last arm placed after that line. *)
with arms_lines (par : option (nat * nat)) (d : Z) (k li : nat) (a : arms) (pend : nat -> list lline)
                (tail : nat -> nat -> list lline -> list lline) : list lline :=
  match a with
  | ANil => tail k li (pend (li + 1))
  | ACons c a' =>
      let e := k + 2 + length (render_body c) in                        (* the `;` *)
      mkLine LLT_CaseArm (lvl (d + 1)) par [k; k + 1] :: pend (li + 1)
      ++ arms_lines par d (e + 1) (li + 1 + length (pend (li + 1))) a'
           (fun i => pexpected_body (Some (li, k + 1)) (k + 2) i (Some e) c) tail
  end.
Definition pexpected_prog (ss : stmts) : list lline :=
  let lb := pexpected None 1 1 1 ss in
  let e := 1 + length (render ss) in
  mkLine LLT_Unknown 0%N None [0] :: lb
  ++ [mkLine LLT_Unknown 0%N None [e; e + 1]; mkLine LLT_Eof 0%N None [e + 2]].

(* parse_file's consolidation on lines without a shared token: empty lines are dropped and the line
   index of every parent becomes the number of non-empty lines before it *)
Definition nonempty_line (l : lline) : bool := match ll_toks l with [] => false | _ :: _ => true end.
Definition finalize (pl : list lline) : list lline :=
  map (fun l => mkLine (ll_type l) (ll_level l)
                  (match ll_parent l with
                   | Some (i, t) => Some (length (filter nonempty_line (firstn i pl)), t)
                   | None => None end) (ll_toks l))
      (filter nonempty_line pl).
Definition expected_prog (ss : stmts) : list lline := finalize (pexpected_prog ss).

(* programs without `if`/`while` (no child lines) *)
Fixpoint child_free (ss : stmts) : bool :=
  match ss with
  | SNil => true
  | SSimple r | SAssign r => child_free r
  | SBlock b r | SRepeat b r => child_free b && child_free r
  | STry b c r | STryExcept b c r => child_free b && child_free c && child_free r
  | SIf _ _ | SIfElse _ _ _ | SWhile _ _ | SCase _ _ | SCaseElse _ _ _ => false
  end.
