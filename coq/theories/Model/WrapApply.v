(* Model/WrapApply.v — the EFFECT of optimising_line_formatter/mod.rs on the token vector, with the
   search as an oracle: OptimisingLineFormatter::format =
     apply the decisions of every solved line (reconstruct_solution), zero the spaces at line starts,
     re-indent multi-line strings, apply the decisions of the reflowed lines, re-apply the spacing.
   Which decisions the search takes is NOT modelled: the plan is an arbitrary list of (token,
   decision) pairs in application order (a token may be decided more than once; the last wins). *)
From PasfmtVerif Require Export Model.Token Model.MLString Model.Rewriters.

Inductive decision :=
  | DBreak (first_in_line : bool) (ind cont : N)
  | DContinue.

Definition clamp12 (n : N) : N := if n <? 1 then 1 else if 2 <? n then 2 else n.

(* reconstruct_solution on one token *)
Definition apply_decision (f : fmt) (d : decision) : fmt :=
  match d with
  | DBreak first ind cont => mkFmt (f_ignored f) (if first then clamp12 (f_nl f) else 1) ind cont (f_sp f)
  | DContinue => mkFmt (f_ignored f) 0 0 0 (f_sp f)
  end.

Fixpoint upd_ftok (i : nat) (g : fmt -> fmt) (l : list ftoken) : list ftoken :=
  match l, i with
  | [], _ => []
  | (tok, f) :: t, O => (tok, g f) :: t
  | p :: t, S j => p :: upd_ftok j g t
  end.

Fixpoint upd_ftok_tok (i : nat) (g : token -> token) (l : list ftoken) : list ftoken :=
  match l, i with
  | [], _ => []
  | (tok, f) :: t, O => (g tok, f) :: t
  | p :: t, S j => p :: upd_ftok_tok j g t
  end.

Definition apply_plan (plan : list (nat * decision)) (l : list ftoken) : list ftoken :=
  fold_left (fun acc pd => upd_ftok (fst pd) (fun f => apply_decision f (snd pd)) acc) plan l.

(* "the extra spaces provided by TokenSpacing can be removed at the starts of lines" *)
Definition zero_line_starts (l : list ftoken) : list ftoken :=
  map (fun p : ftoken => let (tok, f) := p in
         if 0 <? f_nl f then (tok, mkFmt (f_ignored f) (f_nl f) (f_ind f) (f_cont f) 0) else p) l.

(* format_multiline_strings, one visit: the token at index i (a token of a consolidated line is
   visited once per line holding it); the flag records "a token was mutated" *)
Definition ml_visit (rs : rsettings) (acc : list ftoken * bool) (i : nat) : list ftoken * bool :=
  match nth_error (fst acc) i with
  | Some (tok, f) =>
      if f_ignored f then acc
      else if is_ml_string (t_ty tok) then
        match rewrite_ml_token rs (f_ind f) (f_cont f) (t_content tok) with
        | Some c => if bytes_eqb c (t_content tok) then acc
                    else (upd_ftok_tok i (fun t => set_content t c) (fst acc), true)
        | None => acc
        end
      else acc
  | None => acc
  end.

Definition ml_stage (rs : rsettings) (visits : list nat) (l : list ftoken) : list ftoken * bool :=
  fold_left (ml_visit rs) visits (l, false).

(* after a reflow: none at the start of a line, TokenSpacing's value everywhere else *)
Fixpoint respace (orig_sp : list N) (l : list ftoken) : list ftoken :=
  match l, orig_sp with
  | (tok, f) :: t, s :: ss =>
      (tok, mkFmt (f_ignored f) (f_nl f) (f_ind f) (f_cont f) (if 0 <? f_nl f then 0 else N.min 65535 s)) :: respace ss t
  | _, _ => l
  end.

(* visits = the token indices of all lines in order; plan2 = the decisions of the reflowed lines
   (none when no string changed: the Rust then has no line to reflow) *)
Definition olf_effect (rs : rsettings) (format_ml : bool) (visits : list nat) (plan1 plan2 : list (nat * decision))
           (l : list ftoken) : list ftoken :=
  let orig_sp := map (fun p : ftoken => f_sp (snd p)) l in
  let a := zero_line_starts (apply_plan plan1 l) in
  if format_ml then
    let (b, reflowed) := ml_stage rs visits a in
    if reflowed then respace orig_sp (apply_plan plan2 b) else b
  else a.
