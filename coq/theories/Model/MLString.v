(* Model/MLString.v — multi-line string literal re-indentation:
   core/src/rules/optimising_line_formatter/multiline_strings.rs
     lines_custom, StringFormatter::format_multiline_strings (per-token logic), try_rewrite_string
   core/src/defaults/lexer.rs
     count_leading_whitespace (+ count_unicode_whitespace)
   and the std functions they call: split_inclusive, trim_matches, trim_end_matches, strip_prefix,
   starts_with, Iterator::last.
   (State of /repo at c6e6887: the closing line is taken from lines_custom(..).last(), no longer
   from str::lines().last().)

   Everything is at byte level.  The characters the Rust code tests for (LF, CR, the quote, code
   points <= U+0020) are ASCII, and U+3000 is the byte triple E3 80 80; on valid UTF-8 these bytes /
   this triple occur exactly where the characters occur, so the byte-level functions below compute
   what the char-level Rust computes. *)
From PasfmtVerif Require Export Model.Token.

(* ------------------------------------------------------------------ *)
(* small helpers *)

Definition is_lf (b : byte) : bool := b =? 10.
Definition is_cr (b : byte) : bool := b =? 13.
(* matches!(c, '\r' | '\n') *)
Definition is_term (b : byte) : bool := is_cr b || is_lf b.
Definition is_quote (b : byte) : bool := b =? 39.

(* push a byte in front of the first piece of a piece list (start a piece if there is none) *)
Definition cons_to_first (b : byte) (ps : list bytes) : list bytes :=
  match ps with
  | [] => [[b]]
  | p :: ps' => (b :: p) :: ps'
  end.

Fixpoint ml_drop_while (p : byte -> bool) (l : bytes) : bytes :=
  match l with a :: t => if p a then ml_drop_while p t else l | [] => [] end.

(* str::trim_start_matches / trim_end_matches / trim_matches with a char predicate *)
Definition trim_start_by (p : byte -> bool) (l : bytes) : bytes := ml_drop_while p l.
Definition trim_end_by (p : byte -> bool) (l : bytes) : bytes := rev (ml_drop_while p (rev l)).
Definition trim_by (p : byte -> bool) (l : bytes) : bytes := trim_end_by p (trim_start_by p l).

(* str::strip_prefix *)
Definition ml_strip_prefix (p l : bytes) : option bytes :=
  if is_prefix p l then Some (skipn (length p) l) else None.

Definition is_nil {A} (l : list A) : bool := match l with [] => true | _ :: _ => false end.

(* ------------------------------------------------------------------ *)
(* multiline_strings.rs: lines_custom *)

(* input.split_inclusive(closure): the closure is called once per character, left to right, with
   its captured flag `skip_next_nl` (= skip here).  A character for which it answers true ends the
   current piece (inclusive).  split_inclusive yields the remaining text after the last match only
   if it is non-empty. *)
Fixpoint split_incl_custom (skip : bool) (l : bytes) : list bytes :=
  match l with
  | [] => []
  | c :: t =>
      if skip && is_lf c then
        (* skip_next_nl = false; return false *)
        cons_to_first c (split_incl_custom false t)
      else if is_term c then
        (* skip_next_nl = (c == '\r'); return true *)
        [c] :: split_incl_custom (is_cr c) t
      else
        (* skip_next_nl = false; return false *)
        cons_to_first c (split_incl_custom false t)
  end.

(* .map(|line| line.trim_matches(['\n', '\r'])) *)
Definition lines_custom (input : bytes) : list bytes :=
  map (trim_by is_term) (split_incl_custom false input).

(* ------------------------------------------------------------------ *)
(* Iterator::last *)
Fixpoint last_opt {A} (l : list A) : option A :=
  match l with
  | [] => None
  | a :: t => match t with [] => Some a | _ :: _ => last_opt t end
  end.

(* ------------------------------------------------------------------ *)
(* lexer.rs: count_leading_whitespace + count_unicode_whitespace.
   Bytes <= 0x20 count 1; the first byte > 0x7F switches to the char-level scan, which accepts code
   points <= U+0020 (1 byte each) and U+3000 (3 bytes E3 80 80); any other character stops. *)
Definition is_u3000 (a b c : byte) : bool := (a =? 227) && (b =? 128) && (c =? 128).

Fixpoint count_leading_whitespace (l : bytes) : nat :=
  match l with
  | [] => O
  | a :: t =>
      if a <=? 32 then S (count_leading_whitespace t)
      else match t with
           | b :: c :: t' =>
               if is_u3000 a b c then S (S (S (count_leading_whitespace t'))) else O
           | _ => O
           end
  end.

(* ------------------------------------------------------------------ *)
(* multiline_strings.rs: try_rewrite_string *)

(* the indentation pushed in front of a non-empty stripped line *)
Definition ml_indent (rs : rsettings) (ind cont : N) : bytes :=
  nrepeat ind (rs_indent rs) ++ nrepeat cont (rs_cont rs).

(* the body of the `for line in lines` loop for one line: None = `return None`,
   Some x = the text appended to `contents` after the newline string *)
Definition rewrite_line (indent base line : bytes) : option bytes :=
  match ml_strip_prefix base line with
  | Some stripped => Some (if is_nil stripped then [] else indent ++ stripped)
  | None => if is_prefix line base then Some [] else None
  end.

Fixpoint rewrite_lines (nl indent base : bytes) (lines : list bytes) : option bytes :=
  match lines with
  | [] => Some []
  | l :: t =>
      match rewrite_line indent base l with
      | None => None
      | Some x =>
          match rewrite_lines nl indent base t with
          | None => None
          | Some r => Some (nl ++ x ++ r)
          end
      end
  end.

Definition try_rewrite_string (rs : rsettings) (ind cont : N) (original base_indentation : bytes)
  : option bytes :=
  match lines_custom original with
  | [] => Some []                                   (* contents.extend(None); empty loop *)
  | l0 :: rest =>
      match rewrite_lines (rs_newline rs) (ml_indent rs ind cont) base_indentation rest with
      | None => None
      | Some r => Some (l0 ++ r)
      end
  end.

(* ------------------------------------------------------------------ *)
(* multiline_strings.rs: format_multiline_strings, the loop body for one token that is a
   TextLiteral(MultiLine) obtained through `tok.map(..)` = Ok (i.e. not ignored).
   Some new  <->  the Rust calls tok.set_content(new).
   `lines_custom(tok.get_content()).last().unwrap()` panics exactly on the empty content (never
   produced by the lexer); the model returns None there (see
   MLStringProofs.last_custom_line_nonempty). *)

(* &last_line[0..count_leading_whitespace(last_line)] *)
Definition leading_ws (l : bytes) : bytes := firstn (count_leading_whitespace l) l.

Definition ml_base_of_last_line (last_line : bytes) : option bytes :=
  let base := leading_ws last_line in
  if Nat.eqb (length base) (length (trim_end_by is_quote last_line)) then Some base else None.

Definition rewrite_ml_token (rs : rsettings) (ind cont : N) (content : bytes) : option bytes :=
  match last_opt (lines_custom content) with
  | None => None                                    (* unwrap() panic: content = "" only *)
  | Some last_line =>
      match ml_base_of_last_line last_line with
      | None => None                                (* warn; continue *)
      | Some base =>
          match try_rewrite_string rs ind cont content base with
          | None => None
          | Some new => if bytes_eqb new content then None else Some new
          end
      end
  end.
