(* Model/LineConsolidators.v — the two `LogicalLinesConsolidator`s that run right after the parser
   (front-end/src/lib.rs: make_formatter):

     core/src/rules/conditional_directive_consolidator.rs   ConditionalDirectiveConsolidator
     core/src/rules/deindent_package_directives.rs          DeindentPackageDirectives

   Both only look at token TYPES, so the token slice is modelled as `tys : list TokenType`
   (`nth_error tys i` = `tokens.get(i).map(Token::get_token_type)`), and lines as `list lline`
   (Model/Lines.v).  Token indices, lengths and positions are `nat`.

   usize subtraction.  `expand_line` computes `last_token - first_token` and, per window,
   `current - prev`.  With overflow checks (debug build) these panic when the minuend is smaller;
   the checked model `expand_line_chk` returns `None` exactly then (and only if that subtraction
   is reached: earlier `return vec![]`s win, as in the Rust).  `expand_line` is the total version
   (unchanged line, no directives, when the checked one is `None`); the proofs file shows that
   `None` is impossible for a non-decreasing token list, in particular for every line with
   `strictly_increasing (ll_toks l) = true`, which the parser guarantees (Model/Lines.v `line_ok`).
   The wrapping behaviour of a release build on a DEcreasing token list is not modelled.
   `prev + 1`, `last - first + 1` are assumed not to exceed usize::MAX. *)
From PasfmtVerif Require Export Model.Token Model.Lines.

Local Open Scope nat_scope.

(* ------------------------------------------------------------------ *)
(* ConditionalDirectiveConsolidator::is_allowed_token *)

Definition is_allowed_ty (ty : TokenType) : bool :=
  match ty with
  | TT_Identifier => true
  | TT_NumberLiteral _ => true
  | TT_TextLiteral TK_SingleLine => true
  | TT_Comment CoK_IndividualBlock => true
  | TT_Comment CoK_IndividualLine => true
  | TT_Comment CoK_InlineBlock => true
  | TT_Comment CoK_InlineLine => true
  | TT_Op OK_Dot => true
  | _ => false
  end.

Definition is_allowed_token (tys : list TokenType) (i : nat) : bool :=
  match nth_error tys i with Some ty => is_allowed_ty ty | None => false end.

(* tokens.get(i).map(get_token_type) matched against Some(TT::ConditionalDirective(kind)) *)
Definition cond_kind_at (tys : list TokenType) (i : nat) : option ConditionalDirectiveKind :=
  match nth_error tys i with Some (TT_ConditionalDirective k) => Some k | _ => None end.

Definition is_cond_directive_at (tys : list TokenType) (i : nat) : bool :=
  match cond_kind_at tys i with Some _ => true | None => false end.

(* ------------------------------------------------------------------ *)
(* ConditionalDirectiveConsolidator::expand_line *)

Inductive cstate : Set := CS_Outside | CS_AfterIf | CS_AfterElse.

Definition cstate_is_outside (s : cstate) : bool :=
  match s with CS_Outside => true | _ => false end.

(* the `match &state { ... }` on a gap delimited by two conditional directives of kinds
   b_kind / e_kind; `single` is `gap_start_tok == gap_end_tok`; None = `return vec![]` *)
Definition gap_transition (st : cstate) (bk ek : ConditionalDirectiveKind) (single : bool) : option cstate :=
  match st with
  | CS_Outside =>
      if ConditionalDirectiveKind_is_if bk then
        if single then Some CS_AfterIf
        else if ConditionalDirectiveKind_is_else ek then Some CS_AfterElse
        else None
      else None
  | CS_AfterIf =>
      if ConditionalDirectiveKind_is_else bk then
        if single then Some CS_AfterElse
        else if ConditionalDirectiveKind_is_end ek then Some CS_Outside
        else None
      else if ConditionalDirectiveKind_is_end bk && single then Some CS_Outside
      else None
  | CS_AfterElse =>
      if ConditionalDirectiveKind_is_end bk && single then Some CS_Outside
      else None
  end.

(* The `if current - prev > 1 { ... }` block of one (prev, current) window (the caller has checked
   prev <= current).  Result: None = `return vec![]`; Some (state', tokens pushed to
   new_line_tokens by the block, tokens pushed to directives by the block). *)
Definition gap_step (tys : list TokenType) (st : cstate) (prev cur : nat)
  : option (cstate * list nat * list nat) :=
  if Nat.ltb (S prev) cur then
    let gs := S prev in
    let ge := cur - 1 in
    match cond_kind_at tys gs, cond_kind_at tys ge with
    | Some bk, Some ek =>
        match gap_transition st bk ek (Nat.eqb gs ge) with
        | Some st' =>
            (* (gap_start_tok..gap_end_tok).skip(1) = gs+1 .. ge-1 *)
            let inner := seq (S gs) (ge - S gs) in
            if forallb (is_allowed_token tys) inner then
              let tail := if Nat.eqb gs ge then [] else [ge] in
              Some (st', gs :: inner ++ tail, gs :: tail)
            else None
        | None => None
        end
    | _, _ => None
    end
  else Some (st, [], []).

Inductive xres (A : Type) : Type :=
  | X_Ok (a : A)     (* the loop ran to completion *)
  | X_Abort          (* an early `return vec![]` *)
  | X_Panic.         (* `current - prev` with current < prev *)
Arguments X_Ok {A} a.
Arguments X_Abort {A}.
Arguments X_Panic {A}.

(* the `for (&prev, &current) in tokens.iter().tuple_windows()` loop, from the window starting at
   `prev`; returns (tokens pushed to new_line_tokens, tokens pushed to directives, final state) *)
Fixpoint expand_go (tys : list TokenType) (st : cstate) (prev : nat) (rest : list nat)
  : xres (list nat * list nat * cstate) :=
  match rest with
  | [] => X_Ok ([], [], st)
  | cur :: rest' =>
      if Nat.ltb cur prev then X_Panic
      else match gap_step tys st prev cur with
           | None => X_Abort
           | Some (st', gtoks, gdirs) =>
               if cstate_is_outside st' || is_allowed_token tys cur then
                 match expand_go tys st' cur rest' with
                 | X_Ok (toks, dirs, stf) => X_Ok (gtoks ++ cur :: toks, gdirs ++ dirs, stf)
                 | X_Abort => X_Abort
                 | X_Panic => X_Panic
                 end
               else X_Abort
           end
  end.

Definition set_toks (l : lline) (toks : list nat) : lline :=
  mkLine (ll_type l) (ll_level l) (ll_parent l) toks.

(* expand_line with the debug-build panic made explicit: None = panic.
   Some (line after the call, returned vector). *)
Definition expand_line_chk (tys : list TokenType) (l : lline) : option (lline * list nat) :=
  match ll_toks l with
  | [] => Some (l, [])
  | first :: rest =>
      let lst := last rest first in
      if Nat.ltb lst first then None
      else if Nat.eqb (lst - first + 1) (length (ll_toks l)) then Some (l, [])
      else match expand_go tys CS_Outside first rest with
           | X_Panic => None
           | X_Abort => Some (l, [])
           | X_Ok (toks, dirs, stf) =>
               match dirs with
               | [] => Some (l, [])
               | _ :: _ =>
                   if cstate_is_outside stf then Some (set_toks l (first :: toks), dirs)
                   else Some (l, [])
               end
           end
  end.

Definition expand_line (tys : list TokenType) (l : lline) : lline * list nat :=
  match expand_line_chk tys l with Some r => r | None => (l, []) end.

(* ------------------------------------------------------------------ *)
(* small utilities: stable insertion sort by a nat key, dedup of adjacent equal elements,
   in-place update *)

Fixpoint insert_by {A} (key : A -> nat) (x : A) (l : list A) : list A :=
  match l with
  | [] => [x]
  | y :: t => if Nat.leb (key x) (key y) then x :: l else y :: insert_by key x t
  end.

(* stable: among equal keys the original order is kept (slice::sort / Itertools::sorted_by_key) *)
Fixpoint sort_by {A} (key : A -> nat) (l : list A) : list A :=
  match l with
  | [] => []
  | x :: t => insert_by key x (sort_by key t)
  end.

(* Vec::dedup: removes consecutive repeated elements *)
Fixpoint dedup (l : list nat) : list nat :=
  match l with
  | a :: ((b :: _) as t) => if Nat.eqb a b then dedup t else a :: dedup t
  | _ => l
  end.

Fixpoint update_nth {A} (i : nat) (f : A -> A) (l : list A) : list A :=
  match l, i with
  | [], _ => []
  | x :: t, O => f x :: t
  | x :: t, S j => x :: update_nth j f t
  end.

(* ------------------------------------------------------------------ *)
(* ConditionalDirectiveConsolidator::consolidate *)

(* LogicalLine::void_and_drain with the Drain dropped *)
Definition void_line (l : lline) : lline := mkLine LLT_Voided (ll_level l) (ll_parent l) [].

Definition is_conddir_line (l : lline) : bool :=
  match ll_type l with LLT_ConditionalDirective => true | _ => false end.

Definition is_voided_line (l : lline) : bool :=
  match ll_type l with LLT_Voided => true | _ => false end.

(* |line| line.get_tokens().first().copied().unwrap_or_default() *)
Definition first_tok_or0 (l : lline) : nat := hd 0 (ll_toks l).

Definition dummy_line : lline := mkLine LLT_Voided 0%N None [].

Definition line_key (lines : list lline) (i : nat) : nat := first_tok_or0 (nth i lines dummy_line).

(* first loop: expand every line in place, collect the returned directive tokens *)
Definition expand_all (tys : list TokenType) (lines : list lline) : list lline * list nat :=
  let rs := map (expand_line tys) lines in
  (map fst rs, concat (map snd rs)).

Definition expand_all_chk (tys : list TokenType) (lines : list lline) : option (list lline * list nat) :=
  fold_right (fun l acc =>
                match expand_line_chk tys l, acc with
                | Some (l', d), Some (ls, ds) => Some (l' :: ls, d ++ ds)
                | _, _ => None
                end) (Some ([], [])) lines.

(* `directive_lines`: the INDICES (into `lines`) of the lines of type ConditionalDirective, stable
   sorted by first token (keys are read once, when sorting) *)
Definition directive_line_order (lines : list lline) : list nat :=
  sort_by (line_key lines) (filter (fun i => is_conddir_line (nth i lines dummy_line)) (seq 0 (length lines))).

(* A search function stands for `directive_lines.binary_search_by_key(directive, first_token)`:
   given the CURRENT keys of directive_lines (in their sorted order) and the directive, it returns
   Some position (`Ok(position)`) or None (`Err(_)`). *)
Definition search_fn := list nat -> nat -> option nat.

(* specification-level choice: the FIRST position whose key equals the directive *)
Fixpoint search_first (keys : list nat) (d : nat) : option nat :=
  match keys with
  | [] => None
  | k :: t => if Nat.eqb k d then Some 0
              else match search_first t d with Some j => Some (S j) | None => None end
  end.

(* core::slice::binary_search_by of the toolchain the harness is built with (rustc 1.95):
     let mut size = len; if size == 0 { return Err(0) }  let mut base = 0;
     while size > 1 { let half = size/2; let mid = base+half;
                      base = if cmp(mid) == Greater { base } else { mid }; size -= half; }
     if cmp(base) == Equal { Ok(base) } else { Err(..) }
   where cmp(i) = key(i).cmp(directive).  `fuel` bounds the loop (out of fuel: None). *)
Fixpoint bsearch_loop (fuel : nat) (keys : list nat) (d base size : nat) : option nat :=
  if Nat.leb size 1 then Some base
  else match fuel with
       | O => None
       | S f =>
           let half := Nat.div2 size in
           let mid := base + half in
           let base' := if Nat.ltb d (nth mid keys 0) then base else mid in
           bsearch_loop f keys d base' (size - half)
       end.

Definition search_std (keys : list nat) (d : nat) : option nat :=
  match keys with
  | [] => None
  | _ :: _ =>
      match bsearch_loop (length keys) keys d 0 (length keys) with
      | Some base => if Nat.eqb (nth base keys 0) d then Some base else None
      | None => None
      end
  end.

(* second loop: for every directive (ascending, deduplicated) search the directive lines by their
   CURRENT first token (a line voided by an earlier iteration has key 0) and void the line found *)
Definition void_step (srch : search_fn) (order : list nat) (lines : list lline) (d : nat) : list lline :=
  match srch (map (line_key lines) order) d with
  | Some pos => match nth_error order pos with
                | Some i => update_nth i void_line lines
                | None => lines   (* unreachable for a sound search: Rust would index out of range *)
                end
  | None => lines
  end.

Definition void_phase (srch : search_fn) (order : list nat) (dirs : list nat) (lines : list lline) : list lline :=
  fold_left (void_step srch order) dirs lines.

Definition conddir_consolidate_gen (srch : search_fn) (tys : list TokenType) (lines : list lline) : list lline :=
  let '(lines1, dirs) := expand_all tys lines in
  let dirs' := dedup (sort_by (fun d => d) dirs) in
  void_phase srch (directive_line_order lines1) dirs' lines1.

(* The model used for statements: first match in the stable-sorted order.  It coincides with the
   real binary search whenever at most one ConditionalDirective line starts with a given token
   (`unique_first_tokens`, always true for the parser's output); see the proofs file. *)
Definition conddir_consolidate (tys : list TokenType) (lines : list lline) : list lline :=
  conddir_consolidate_gen search_first tys lines.

(* bit-exact for the harness toolchain, including duplicate keys *)
Definition conddir_consolidate_std (tys : list TokenType) (lines : list lline) : list lline :=
  conddir_consolidate_gen search_std tys lines.

(* panic-aware version: None when some expand_line would panic on usize underflow *)
Definition conddir_consolidate_chk (tys : list TokenType) (lines : list lline) : option (list lline) :=
  match expand_all_chk tys lines with
  | Some _ => Some (conddir_consolidate tys lines)
  | None => None
  end.

(* among the ConditionalDirective lines no two non-empty ones start with the same token *)
Fixpoint nodup_nat (l : list nat) : bool :=
  match l with
  | [] => true
  | a :: t => negb (existsb (Nat.eqb a) t) && nodup_nat t
  end.

Definition unique_first_tokens (lines : list lline) : bool :=
  nodup_nat (map first_tok_or0
               (filter (fun l => is_conddir_line l && negb (match ll_toks l with [] => true | _ => false end)) lines)).

(* every ConditionalDirective line holds exactly one token (true for the parser's output) *)
Definition conddir_lines_singleton (lines : list lline) : bool :=
  forallb (fun l => negb (is_conddir_line l) || match ll_toks l with [_] => true | _ => false end) lines.

Definition no_voided (lines : list lline) : bool := forallb (fun l => negb (is_voided_line l)) lines.

(* lines_cover (Model/Lines.v) on the lines that are not Voided *)
Definition lines_cover_nv (tys : list TokenType) (lines : list lline) : bool :=
  lines_cover tys (filter (fun l => negb (is_voided_line l)) lines).

(* ------------------------------------------------------------------ *)
(* DeindentPackageDirectives::consolidate *)

Definition first_real_ty (tys : list TokenType) : option TokenType :=
  find (fun ty => negb (TokenType_is_comment_or_directive ty)) tys.

Definition is_package_file (tys : list TokenType) : bool :=
  match first_real_ty tys with Some (TT_Keyword KK_Package) => true | _ => false end.

Definition is_directive_line (l : lline) : bool :=
  match ll_type l with LLT_CompilerDirective | LLT_ConditionalDirective => true | _ => false end.

(* void_and_drain().collect() + LogicalLine::new(parent, 0, tokens, line_type) + swap *)
Definition deindent_line (l : lline) : lline :=
  if is_directive_line l then mkLine (ll_type l) 0%N (ll_parent l) (ll_toks l) else l.

Definition deindent_package (tys : list TokenType) (lines : list lline) : list lline :=
  if is_package_file tys then map deindent_line lines else lines.
