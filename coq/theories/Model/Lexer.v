(* Model/Lexer.v - byte-level executable model of the Delphi lexer
   (core/src/defaults/lexer.rs, lines 1..1363).

   Style: every sub-lexer receives the input that FOLLOWS the bytes already consumed by the
   dispatcher (the Rust args.consume(1)), as a bytes suffix, and returns the number of further
   bytes it consumes (relative to that suffix) together with the token type.  Rust offsets are
   therefore never materialised; input[..offset] is only ever inspected for [contains LF]
   (comment kinds) and for trailing-blank trimming (consume_to_eof), both modelled explicitly.

   The Rust operates on &str (valid UTF-8 by construction).  The model is total on all byte lists
   and works byte-wise; the comments say why each byte-wise rule coincides with the char-wise Rust
   on valid UTF-8. *)
From PasfmtVerif Require Export Model.Token Gen.LexerTables.
From Coq Require Import Arith.

(* ------------------------------------------------------------------ *)
(* scanning primitives over a suffix *)

(* index of the first byte satisfying p (memchr / memchr2 / memchr3) *)
Fixpoint find_first (p : byte -> bool) (l : bytes) : option nat :=
  match l with
  | [] => None
  | b :: t => if p b then Some O else option_map S (find_first p t)
  end.

(* index of the first occurrence of pat (memchr::memmem::find) *)
Fixpoint find_sub (pat l : bytes) : option nat :=
  if is_prefix pat l then Some O
  else match l with
       | [] => None
       | _ :: t => option_map S (find_sub pat t)
       end.

Definition next_is (c : byte) (t : bytes) : bool :=
  match t with x :: _ => x =? c | [] => false end.

(* ------------------------------------------------------------------ *)
(* whitespace: count_leading_whitespace / count_unicode_whitespace *)

(* Bytes <= 0x20 are blank; so is U+3000 = E3 80 80.  The Rust switches to a char-wise scan at the
   first byte > 0x7F; on valid UTF-8 the triple E3 80 80 at a char start is exactly U+3000. *)
Fixpoint count_ws (l : bytes) : nat :=
  match l with
  | [] => O
  | a :: t =>
      if a <=? 32 then S (count_ws t)
      else match t with
           | b :: c :: t' =>
               if (a =? 227) && (b =? 128) && (c =? 128) then S (S (S (count_ws t'))) else O
           | _ => O
           end
  end.

Definition all_ws (l : bytes) : bool := Nat.eqb (count_ws l) (length l).

(* consume_to_eof: input.len() - (blank chars counted from the end).  trimmed_len l is the least p
   such that l[p..] is entirely blank, which on valid UTF-8 is the length of l without its maximal
   blank suffix.  It is used on the suffix following a non-blank ASCII byte (open brace, star,
   dollar), where it equals (len - trim_count) - offset of the Rust. *)
Fixpoint trimmed_len (l : bytes) : nat :=
  match l with
  | [] => O
  | _ :: t => if all_ws l then O else S (trimmed_len t)
  end.

(* ------------------------------------------------------------------ *)
(* character classes *)

Definition is_ident_ascii (b : byte) : bool := is_alnum b || (b =? 95).
Definition is_dec (b : byte) : bool := (b =? 95) || is_digit b.
Definition is_hex (b : byte) : bool :=
  (b =? 95) || is_digit b || ((97 <=? b) && (b <=? 102)) || ((65 <=? b) && (b <=? 70)).
Definition is_bin (b : byte) : bool := (b =? 95) || (b =? 48) || (b =? 49).

Definition count_decimal (l : bytes) : nat := count_while is_dec l.
Definition count_hex (l : bytes) : nat := count_while is_hex l.
Definition count_binary (l : bytes) : nat := count_while is_bin l.
Definition count_full_decimal (l : bytes) : nat :=
  if next_is 95 l then O else count_decimal l.

(* ------------------------------------------------------------------ *)
(* keywords *)

(* regenerated from core/src/defaults/lexer.rs on every run (gen/rs2v_tables.py) *)
Definition KEYWORDS_table : list (bytes * RawTokenType) := KEYWORDS_gen.

(* eq_ignore_ascii_case against a lower-case ASCII constant *)
Definition eq_ignore_case (w kw : bytes) : bool := bytes_eqb (lower w) kw.

Fixpoint keyword_lookup (tbl : list (bytes * RawTokenType)) (w : bytes) : RawTokenType :=
  match tbl with
  | [] => RTT_Identifier
  | (k, ty) :: rest => if eq_ignore_case w k then ty else keyword_lookup rest w
  end.

(* get_word_token_type: the Rust uses a gperf perfect hash (case-insensitive, over bytes 0,1,2,last
   and the length) followed by eq_ignore_ascii_case on the single candidate; since the hash of a
   word equal to a keyword up to ASCII case is the slot of that keyword, this is a case-insensitive
   search of KEYWORDS. *)
Definition get_word_token_type (w : bytes) : RawTokenType := keyword_lookup KEYWORDS_table w.

(* ------------------------------------------------------------------ *)
(* get_word_token_type as written in the Rust: gperf perfect hash + one comparison.
   Proofs/LexerProofs.v (get_word_token_type_hash_eq) shows it equals get_word_token_type. *)

Definition KEYWORD_ASSO_VALUES : list N := KEYWORD_ASSO_VALUES_gen.

Definition asso (b : byte) : N := nth (N.to_nat b) KEYWORD_ASSO_VALUES 244.

(* hash_keyword; u16 arithmetic cannot overflow for the lengths it is used with
   (at most MAX_WORD_LENGTH + 4 * 244) *)
Definition hash_keyword (w : bytes) : N :=
  let len := length w in
  N.of_nat len
  + (if Nat.leb 3 len then asso (nth 2 w 0) else 0)
  + (if Nat.leb 2 len then asso (nth 1 w 0) else 0)
  + (if Nat.leb 1 len then asso (nth 0 w 0) + asso (last w 0) else 0).

(* make_keyword_lookup_table: None models the compile-time panic (collision or hash out of range) *)
Fixpoint set_nth {A} (i : nat) (x : A) (l : list A) : list A :=
  match l, i with
  | [], _ => []
  | _ :: t, O => x :: t
  | a :: t, S j => a :: set_nth j x t
  end.

Fixpoint make_keyword_lookup_table (kws : list (bytes * RawTokenType))
    (out : list (option (bytes * RawTokenType))) : option (list (option (bytes * RawTokenType))) :=
  match kws with
  | [] => Some out
  | kw :: rest =>
      let h := N.to_nat (hash_keyword (fst kw)) in
      match nth_error out h with
      | Some None => make_keyword_lookup_table rest (set_nth h (Some kw) out)
      | _ => None
      end
  end.

Definition KEYWORD_LOOKUP_TABLE : option (list (option (bytes * RawTokenType))) :=
  make_keyword_lookup_table KEYWORDS_table (repeat None (N.to_nat (nth 0 KEYWORD_ASSO_VALUES 0))).

Definition MAX_WORD_LENGTH : nat :=
  fold_right (fun kw acc => Nat.max (length (fst kw)) acc) O KEYWORDS_table.

(* the outer None is the compile-time failure of the table construction *)
Definition get_word_token_type_hash (w : bytes) : option RawTokenType :=
  match KEYWORD_LOOKUP_TABLE with
  | None => None
  | Some tbl =>
      Some (if Nat.leb (length w) MAX_WORD_LENGTH then
              match nth_error tbl (N.to_nat (hash_keyword w)) with
              | Some (Some (candidate, keyword)) =>
                  if eq_ignore_case w candidate then keyword else RTT_Identifier
              | _ => RTT_Identifier
              end
            else RTT_Identifier)
  end.

(* ------------------------------------------------------------------ *)
(* identifiers *)

Definition is_u3000_at (l : bytes) : bool := is_prefix [227; 128; 128] l.

(* find_identifier_end_generic, relative to the suffix.  Rust: chars().take_while(ASCII alnum or
   underscore or (c >= U+80 and c <> U+3000)).  Byte-wise: every byte >= 0x80 is consumed unless it
   starts the triple E3 80 80.  On valid UTF-8 this consumes whole characters: continuation bytes
   are >= 0x80 and E3 is never a continuation byte. *)
Fixpoint ident_end_generic (l : bytes) : nat :=
  match l with
  | [] => O
  | b :: t =>
      if is_ident_ascii b then S (ident_end_generic t)
      else if (128 <=? b) && negb (is_u3000_at l) then S (ident_end_generic t)
      else O
  end.

(* find_identifier_end_avx2.  i8 view of a byte, signed compares as _mm256_cmpgt_epi8. *)
Definition to_i8 (b : byte) : Z := if b <? 128 then Z.of_N b else (Z.of_N b - 256)%Z.
Definition range_mask (x lo hi : byte) : bool :=
  ((to_i8 x <? to_i8 hi + 1) && (to_i8 lo - 1 <? to_i8 x))%Z.
Definition ident_mask_bit (x : byte) : bool :=
  (x =? 95) || (range_mask x 65 90 || (range_mask x 97 122 || range_mask x 48 57)).
Definition any_non_ascii (chunk : bytes) : bool := existsb (fun b => 128 <=? b) chunk.
Definition trailing_ones (mask : list bool) : nat := count_while (fun x : bool => x) mask.

(* One iteration per 32-byte chunk; fuel = length of the suffix (each iteration that continues
   consumes 32 bytes).  Running out of fuel is impossible and falls through to the scalar tail,
   which is also what the Rust loop exit does. *)
Fixpoint avx2_loop (fuel : nat) (l : bytes) : nat :=
  match fuel with
  | O => ident_end_generic l
  | S f =>
      if Nat.leb 32 (length l) then
        let chunk := firstn 32 l in
        if any_non_ascii chunk then ident_end_generic l            (* break *)
        else
          let mask := map ident_mask_bit chunk in                  (* movemask, bit i = byte i *)
          if negb (forallb (fun x : bool => x) mask) then trailing_ones mask
          else (32 + avx2_loop f (skipn 32 l))%nat
      else ident_end_generic l
  end.

Definition ident_end_avx2 (l : bytes) : nat := avx2_loop (length l) l.

(* find_identifier_end: dispatches to avx2 or generic at run time; see ident_end_avx2_eq_generic *)
Definition find_identifier_end (l : bytes) : nat := ident_end_generic l.

(* unicode_identifier: skip to the next char boundary (continuation bytes), then identifier *)
Definition unicode_identifier (t : bytes) : nat :=
  let c := count_while is_cont t in
  (c + find_identifier_end (skipn c t))%nat.

(* asm_label: after the at-sign *)
Definition is_asm_ident (b : byte) : bool := is_ident_ascii b || (b =? 64).
Definition asm_label (t : bytes) : nat := count_while is_asm_ident t.

(* ------------------------------------------------------------------ *)
(* number literals (suffix after the first byte) *)

Definition dec_number_literal (l : bytes) : nat :=
  let n1 := count_decimal l in
  let r1 := skipn n1 l in
  let n2 := if next_is 46 r1 then
              let f := count_full_decimal (tl r1) in
              if Nat.eqb f O then O else S f
            else O in
  let r2 := skipn n2 r1 in
  let n3 := if next_is 101 r2 || next_is 69 r2 then
              let r3 := tl r2 in
              if next_is 43 r3 || next_is 45 r3 then S (S (count_full_decimal (tl r3)))
              else S (count_full_decimal r3)
            else O in
  (n1 + n2 + n3)%nat.

(* asm_number_literal: first = the digit already consumed *)
Definition asm_number_literal (first : byte) (t : bytes) : nat * RawTokenType :=
  let n := count_hex t in
  let r := skipn n t in
  if next_is 79 r || next_is 111 r then (S n, RTT_NumberLiteral NK_Octal)
  else if next_is 72 r || next_is 104 r then (S n, RTT_NumberLiteral NK_Hex)
  else
    let prev := nth n (first :: t) 0 in                            (* args.prev_byte() *)
    if (prev =? 66) || (prev =? 98) then (n, RTT_NumberLiteral NK_Binary)
    else (n, RTT_NumberLiteral NK_Decimal).

(* ------------------------------------------------------------------ *)
(* text literals *)

(* The single-line loop (consume_escaped_chars / consume_pascal_str alternating) as an automaton
   that consumes one byte per step.
   E: between pieces; H: after hash; D/X/B: inside decimal/hex/binary digits (at least one seen);
   X0/B0: after hash-dollar / hash-percent, no digit yet; S: inside a quoted piece. *)
Inductive tl_state := TL_E | TL_H | TL_D | TL_X0 | TL_X | TL_B0 | TL_B | TL_S.
Inductive tl_act := TGo (s : tl_state) | TStop (k : TextLiteralKind).

(* between pieces: hash starts an escaped char, quote starts a quoted piece, anything else ends *)
Definition tl_step_E (b : byte) : tl_act :=
  if b =? 35 then TGo TL_H else if b =? 39 then TGo TL_S else TStop TK_SingleLine.

Definition tl_step (s : tl_state) (b : byte) : tl_act :=
  match s with
  | TL_E => tl_step_E b
  | TL_H => if is_dec b then TGo TL_D
            else if b =? 36 then TGo TL_X0
            else if b =? 37 then TGo TL_B0
            else TStop TK_Unterminated
  | TL_D => if is_dec b then TGo TL_D else tl_step_E b
  | TL_X0 => if is_hex b then TGo TL_X else TStop TK_Unterminated
  | TL_X => if is_hex b then TGo TL_X else tl_step_E b
  | TL_B0 => if is_bin b then TGo TL_B else TStop TK_Unterminated
  | TL_B => if is_bin b then TGo TL_B else tl_step_E b
  | TL_S => if b =? 39 then TGo TL_E
            else if (b =? 10) || (b =? 13) then TStop TK_Unterminated
            else TGo TL_S
  end.

Definition tl_end (s : tl_state) : TextLiteralKind :=
  match s with
  | TL_E | TL_D | TL_X | TL_B => TK_SingleLine
  | TL_H | TL_X0 | TL_B0 | TL_S => TK_Unterminated
  end.

Fixpoint tl_run (s : tl_state) (l : bytes) : nat * TextLiteralKind :=
  match l with
  | [] => (O, tl_end s)
  | b :: t =>
      match tl_step s b with
      | TGo s' => let r := tl_run s' t in (S (fst r), snd r)
      | TStop k => (O, k)
      end
  end.

(* text_literal: b is the first byte (quote or hash), t the suffix after it *)
Definition text_literal (b : byte) (t : bytes) : nat * RawTokenType :=
  let q := if b =? 39 then S (count_while (fun c => c =? 39) t) else O in   (* quote_count *)
  let body := skipn (q - 1) t in                                         (* from start_of_contents *)
  if Nat.leb 3 q && Nat.odd q && (next_is 13 body || next_is 10 body) then
    match find_sub (repeat 39 q) body with
    | Some pos => ((q - 1) + pos + q, RTT_TextLiteral TK_MultiLine)%nat
    | None => (length t, RTT_TextLiteral TK_Unterminated)
    end
  else
    let r := tl_run (if b =? 39 then TL_S else TL_H) t in
    (fst r, RTT_TextLiteral (snd r)).

(* asm_text_literal: after the double quote *)
Fixpoint asm_text_literal (t : bytes) : nat * RawTokenType :=
  match t with
  | [] => (O, RTT_TextLiteral TK_Unterminated)
  | b :: t1 =>
      if b =? 92 then
        match t1 with
        | [] => (1%nat, RTT_TextLiteral TK_Unterminated)
        | _ :: t2 => let r := asm_text_literal t2 in (S (S (fst r)), snd r)
        end
      else if b =? 34 then (1%nat, RTT_TextLiteral TK_Asm)
      else if (b =? 10) || (b =? 13) then (O, RTT_TextLiteral TK_Unterminated)
      else let r := asm_text_literal t1 in (S (fst r), snd r)
  end.

(* ------------------------------------------------------------------ *)
(* comments and directives *)

Inductive BlockCommentKind := BCK_ParenStar | BCK_Brace.

Definition is_paren_star (k : BlockCommentKind) : bool :=
  match k with BCK_ParenStar => true | BCK_Brace => false end.

(* find_block_comment_end, relative *)
Definition find_block_comment_end (k : BlockCommentKind) (l : bytes) : option nat :=
  match k with
  | BCK_ParenStar => option_map (fun o => (o + 2)%nat) (find_sub [42; 41] l)
  | BCK_Brace => option_map S (find_first (fun b => b =? 125) l)
  end.

Definition block_comment_kind (nl_before nl_inside : bool) : CommentKind :=
  if nl_inside then CoK_MultilineBlock
  else if nl_before then CoK_IndividualBlock
  else CoK_InlineBlock.

(* _block_comment / block_comment / block_comment_alt: l follows the opening brace resp.
   paren-star.  nlb = input[..offset].contains(LF) || is_first *)
Definition block_comment (k : BlockCommentKind) (nlb : bool) (l : bytes) : nat * RawTokenType :=
  match find_block_comment_end k l with
  | Some e => (e, RTT_Comment (block_comment_kind nlb (contains_byte 10 (firstn e l))))
  | None => (trimmed_len l, RTT_Comment CoK_MultilineBlock)
  end.

Definition is_eol (b : byte) : bool := (b =? 10) || (b =? 13).

(* line_comment: l follows the two slashes *)
Definition line_comment_len (l : bytes) : nat := count_while (fun b => negb (is_eol b)) l.
Definition line_comment (nlb : bool) (l : bytes) : nat * RawTokenType :=
  (line_comment_len l, RTT_Comment (if nlb then CoK_IndividualLine else CoK_InlineLine)).

(* conditional_directive_type: the name is the maximal ASCII [0-9a-zA-Z_] run *)
Definition conditional_directive_kind (name : bytes) : option ConditionalDirectiveKind :=
  if eq_ignore_case name [105; 102] then Some CDK_If
  else if eq_ignore_case name [105; 102; 100; 101; 102] then Some CDK_Ifdef
  else if eq_ignore_case name [105; 102; 110; 100; 101; 102] then Some CDK_Ifndef
  else if eq_ignore_case name [105; 102; 111; 112; 116] then Some CDK_Ifopt
  else if eq_ignore_case name [101; 108; 115; 101; 105; 102] then Some CDK_Elseif
  else if eq_ignore_case name [101; 108; 115; 101] then Some CDK_Else
  else if eq_ignore_case name [105; 102; 101; 110; 100] then Some CDK_Ifend
  else if eq_ignore_case name [101; 110; 100; 105; 102] then Some CDK_Endif
  else None.

Definition directive_token_type (cdk : option ConditionalDirectiveKind) : RawTokenType :=
  match cdk with Some k => RTT_ConditionalDirective k | None => RTT_CompilerDirective end.

Definition cdk_has_expr (cdk : option ConditionalDirectiveKind) : bool :=
  match cdk with Some CDK_If | Some CDK_Elseif => true | _ => false end.

(* result of the directive end search: Rust Option<usize> plus the out-of-fuel value of the model *)
Inductive dres := DEnd (n : nat) | DUnterminated | DFuel.

Definition dshift (k : nat) (r : dres) : dres :=
  match r with DEnd n => DEnd (k + n) | other => other end.
Definition dres_of_option (o : option nat) : dres :=
  match o with Some n => DEnd n | None => DUnterminated end.

(* parse_directive_expr(..).1, parametrised by the expression scanner; l follows the dollar *)
Definition parse_directive_end (expr_end : BlockCommentKind -> bytes -> dres)
    (k : BlockCommentKind) (l : bytes) : dres :=
  let n := count_while is_ident_ascii l in
  let r := skipn n l in
  if cdk_has_expr (conditional_directive_kind (firstn n l)) then dshift n (expr_end k r)
  else dshift n (dres_of_option (find_block_comment_end k r)).

(* find_directive_expr_end, relative to l; one unit of fuel per loop iteration or nesting level *)
Fixpoint find_directive_expr_end (fuel : nat) (kind : BlockCommentKind) (l : bytes) : dres :=
  match fuel with
  | O => DFuel
  | S f =>
      let continue (m : nat) : dres := dshift m (find_directive_expr_end f kind (skipn m l)) in
      let and_then (pre : nat) (r : dres) : dres :=
        match r with DEnd m => continue (pre + m)%nat | other => other end in
      match l with
      | [] => DUnterminated
      | b :: t =>
          if is_paren_star kind && is_prefix [42; 41] l then DEnd 2
          else if negb (is_paren_star kind) && (b =? 125) then DEnd 1
          else if is_prefix [40; 42; 36] l then
            and_then 3%nat (parse_directive_end (find_directive_expr_end f) BCK_ParenStar (skipn 3 l))
          else if is_prefix [123; 36] l then
            and_then 2%nat (parse_directive_end (find_directive_expr_end f) BCK_Brace (skipn 2 l))
          else if is_prefix [40; 42] l then
            continue (2 + fst (block_comment BCK_ParenStar false (skipn 2 l)))%nat
          else if b =? 123 then continue (1 + fst (block_comment BCK_Brace false t))%nat
          else if b =? 39 then continue (S (fst (text_literal 39 t)))
          else if is_prefix [47; 47] l then continue (2 + line_comment_len (skipn 2 l))%nat
          else continue 1%nat
      end
  end.

(* token-level result: bytes consumed after the first byte, type; or out-of-fuel *)
Inductive tres := TOk (n : nat) (ty : RawTokenType) | TFuel.

Definition tok (r : nat * RawTokenType) : tres := TOk (fst r) (snd r).
Definition tshift (k : nat) (r : tres) : tres :=
  match r with TOk n ty => TOk (k + n) ty | TFuel => TFuel end.

(* compiler_directive: l follows the dollar *)
Definition compiler_directive (k : BlockCommentKind) (l : bytes) : tres :=
  let n := count_while is_ident_ascii l in
  let ty := directive_token_type (conditional_directive_kind (firstn n l)) in
  match parse_directive_end (find_directive_expr_end (S (length l))) k l with
  | DEnd e => TOk e ty
  | DUnterminated => TOk (trimmed_len l) ty                          (* consume_to_eof *)
  | DFuel => TFuel
  end.

(* compiler_directive_or_comment(_alt): l follows the opening brace / paren-star *)
Definition compiler_directive_or_comment (k : BlockCommentKind) (nlb : bool) (l : bytes) : tres :=
  if next_is 36 l then tshift 1 (compiler_directive k (tl l))
  else tok (block_comment k nlb l).

(* ------------------------------------------------------------------ *)
(* ampersand: t follows the first ampersand *)

Definition ampersand (t : bytes) : nat * RawTokenType :=
  let k := count_while (fun b => b =? 38) t in
  match skipn k t with
  | [] => (k, RTT_Unknown)
  | c :: r =>
      if c =? 36 then (k + 1 + count_hex r, RTT_NumberLiteral NK_Hex)%nat
      else if c =? 37 then (k + 1 + count_binary r, RTT_NumberLiteral NK_Binary)%nat
      else if is_digit c then (k + 1 + dec_number_literal r, RTT_NumberLiteral NK_Decimal)%nat
      else if is_alpha c || (c =? 95) then (k + 1 + find_identifier_end r, RTT_Identifier)%nat
      else if 128 <=? c then (k + 1 + unicode_identifier r, RTT_Identifier)%nat
      else (k, RTT_Unknown)
  end.

(* ------------------------------------------------------------------ *)
(* lexer state and dispatch *)

Record lstate := mkLS { ls_first : bool; ls_asm : bool; ls_prev : option RawTokenType }.

Definition prev_is_dot (st : lstate) : bool :=
  match ls_prev st with Some (RTT_Op OK_Dot) => true | _ => false end.

Definition is_kw_asm (ty : RawTokenType) : bool :=
  match ty with RTT_Keyword KK_Asm => true | _ => false end.

(* identifier_or_keyword *)
Definition identifier_or_keyword (st : lstate) (b : byte) (t : bytes) : nat * RawTokenType :=
  let n := find_identifier_end t in
  (n, if prev_is_dot st then RTT_Identifier else get_word_token_type (b :: firstn n t)).

(* asm_identifier; the bool is the new in_asm *)
Definition asm_identifier (b : byte) (t : bytes) : nat * RawTokenType * bool :=
  let n := find_identifier_end t in
  let w := b :: firstn n t in
  if eq_ignore_case w [101; 110; 100] then (n, RTT_Keyword KK_End, false)
  else if eq_ignore_case w [97; 115; 109] then (n, RTT_Keyword KK_Asm, true)
  else (n, RTT_Identifier, true).

Definition op (n : nat) (k : OperatorKind) : tres := TOk n (RTT_Op k).

(* COMMON_LEXER_MAP merged with unknown (= LEXER_MAP) *)
Definition lex_common (st : lstate) (nlb : bool) (b : byte) (t : bytes) : tres :=
  if b =? 40 then
    if next_is 42 t then tshift 1 (compiler_directive_or_comment BCK_ParenStar nlb (tl t))
    else if next_is 46 t then op 1 OK_LBrack
    else op 0 OK_LParen
  else if b =? 123 then compiler_directive_or_comment BCK_Brace nlb t
  else if b =? 47 then
    if next_is 47 t then tshift 1 (tok (line_comment nlb (tl t))) else op 0 OK_Slash
  else if b =? 58 then if next_is 61 t then op 1 OK_Assign else op 0 OK_Colon
  else if b =? 60 then
    if next_is 61 t then op 1 OK_LessEqual
    else if next_is 62 t then op 1 OK_NotEqual
    else op 0 (OK_LessThan ChK_Comp)
  else if b =? 62 then
    if next_is 61 t then op 1 OK_GreaterEqual else op 0 (OK_GreaterThan ChK_Comp)
  else if b =? 46 then
    if next_is 46 t then op 1 OK_DotDot
    else if next_is 41 t then op 1 OK_RBrack
    else op 0 OK_Dot
  else if b =? 43 then op 0 OK_Plus
  else if b =? 45 then op 0 OK_Minus
  else if b =? 42 then op 0 OK_Star
  else if b =? 44 then op 0 OK_Comma
  else if b =? 59 then op 0 OK_Semicolon
  else if b =? 61 then op 0 (OK_Equal EK_Comp)
  else if b =? 94 then op 0 (OK_Caret CaK_Deref)
  else if b =? 64 then op 0 OK_AddressOf
  else if b =? 91 then op 0 OK_LBrack
  else if b =? 93 then op 0 OK_RBrack
  else if b =? 41 then op 0 OK_RParen
  else if (b =? 39) || (b =? 35) then tok (text_literal b t)
  else if b =? 38 then tok (ampersand t)
  else if b =? 37 then TOk (count_binary t) (RTT_NumberLiteral NK_Binary)
  else if b =? 36 then TOk (count_hex t) (RTT_NumberLiteral NK_Hex)
  else if is_digit b then TOk (dec_number_literal t) (RTT_NumberLiteral NK_Decimal)
  else if is_alpha b then tok (identifier_or_keyword st b t)
  else if b =? 95 then TOk (find_identifier_end t) RTT_Identifier
  else if 128 <=? b then TOk (unicode_identifier t) RTT_Identifier
  else TOk 0 RTT_Unknown.

Definition is_aAeE (b : byte) : bool := (b =? 97) || (b =? 65) || (b =? 101) || (b =? 69).

(* lex_token / lex_asm_token: one token starting at the non-blank byte b followed by t.
   Result: (bytes consumed after b, type, new in_asm); None = out of fuel *)
Definition lex_token (st : lstate) (nlb : bool) (b : byte) (t : bytes)
    : option (nat * RawTokenType * bool) :=
  if ls_asm st then
    (* ASM_LEXER_MAP overrides *)
    if b =? 64 then Some (asm_label t, RTT_Identifier, true)
    else if b =? 34 then let r := asm_text_literal t in Some (fst r, snd r, true)
    else if is_digit b then let r := asm_number_literal b t in Some (fst r, snd r, true)
    else if is_aAeE b then Some (asm_identifier b t)
    else if is_alpha b then Some (find_identifier_end t, RTT_Identifier, true)
    else match lex_common st nlb b t with TOk n ty => Some (n, ty, true) | TFuel => None end
  else
    match lex_common st nlb b t with
    | TOk n ty =>
        (* identifier_or_keyword: in_asm = (token_type == Keyword(Asm)); nothing else writes it *)
        Some (n, ty, if is_alpha b then is_kw_asm ty else false)
    | TFuel => None
    end.

Definition init_state : lstate := mkLS true false None.

(* whitespace_and_token + the loop of lex + eof.
   Result per token: (leading whitespace length, content length, type). *)
Fixpoint lex_loop (fuel : nat) (st : lstate) (l : bytes)
    : option (list (nat * nat * RawTokenType)) :=
  match fuel with
  | O => None
  | S f =>
      let w := count_ws l in
      match skipn w l with
      | [] => Some [(w, O, RTT_Eof)]
      | b :: t =>
          let nlb := contains_byte 10 (firstn w l) || ls_first st in
          match lex_token st nlb b t with
          | None => None
          | Some (n, ty, asm') =>
              let st' := mkLS false asm'
                           (if RawTokenType_is_comment_or_directive ty then ls_prev st else Some ty) in
              match lex_loop f st' (skipn n t) with
              | Some ts => Some ((w, S n, ty) :: ts)
              | None => None
              end
          end
      end
  end.

Definition lex (s : bytes) : option (list (nat * nat * RawTokenType)) :=
  lex_loop (S (length s)) init_state s.

(* ------------------------------------------------------------------ *)
(* the pieces of the input described by a token list: (leading blanks, content, type) *)

Definition tok3 := (nat * nat * RawTokenType)%type.
Definition seg := (bytes * bytes * RawTokenType)%type.

Fixpoint segments (toks : list tok3) (s : bytes) : list seg :=
  match toks with
  | [] => []
  | (w, n, ty) :: r => (firstn w s, firstn n (skipn w s), ty) :: segments r (skipn (w + n) s)
  end.

Definition seg_lens (p : seg) : tok3 := match p with (ws, c, ty) => (length ws, length c, ty) end.
Definition seg_bytes (p : seg) : bytes := match p with (ws, c, _) => ws ++ c end.

(* the RawToken stream with its text: per token (leading whitespace, content, type) *)
Definition lex_segments (s : bytes) : option (list seg) :=
  option_map (fun toks => segments toks s) (lex s).

(* ------------------------------------------------------------------ *)
(* valid UTF-8 (RFC 3629: no overlongs, no surrogates, <= U+10FFFF), used only in theorems *)

Definition in_range (lo hi b : byte) : bool := (lo <=? b) && (b <=? hi).

Fixpoint valid_utf8 (l : bytes) : bool :=
  match l with
  | [] => true
  | a :: t =>
      if a <? 128 then valid_utf8 t
      else match t with
           | b :: t1 =>
               if in_range 194 223 a then is_cont b && valid_utf8 t1
               else match t1 with
                    | c :: t2 =>
                        if in_range 224 239 a then
                          (if a =? 224 then in_range 160 191 b
                           else if a =? 237 then in_range 128 159 b
                           else is_cont b) && is_cont c && valid_utf8 t2
                        else match t2 with
                             | d :: t3 =>
                                 if in_range 240 244 a then
                                   (if a =? 240 then in_range 144 191 b
                                    else if a =? 244 then in_range 128 143 b
                                    else is_cont b) && is_cont c && is_cont d && valid_utf8 t3
                                 else false
                             | [] => false
                             end
                    | [] => false
                    end
           | [] => false
           end
  end.
