(* Model/Config.v — orchestrator/src/command_line.rs: find_config_file, get_config_object_from_file
   (layering), mode / validate.  clap, toml, serde and the `config` crate are parameters. *)
From Coq Require Import String.
From PasfmtVerif Require Export Base.Bytes.

(* a directory is the list of its path components from the root; `has_file d` = d/pasfmt.toml is a
   regular file (Path::is_file) *)
Definition dir := list string.

(* find_config_file: push the file name, test, pop twice; stops when the second pop fails (root).
   Structural recursion on the reversed component list (deepest first). *)
Fixpoint find_config_rev (has_file : dir -> bool) (rev_dir : list string) : option dir :=
  if has_file (rev rev_dir) then Some (rev rev_dir)
  else match rev_dir with
       | [] => None
       | _ :: up => find_config_rev has_file up
       end.

Definition find_config_file (has_file : dir -> bool) (d : dir) : option dir := find_config_rev has_file (rev d).

(* number of is_file probes *)
Fixpoint probes_rev (has_file : dir -> bool) (rev_dir : list string) : nat :=
  if has_file (rev rev_dir) then 1
  else match rev_dir with [] => 1 | _ :: up => S (probes_rev has_file up) end.

(* --- layering: defaults <- file <- overrides (set_override per -C, in command-line order) --- *)
Section Layer.
  Variable key value : Type.
  Variable key_eqb : key -> key -> bool.

  Fixpoint lookup (k : key) (l : list (key * value)) : option value :=
    match l with
    | [] => None
    | (k', v) :: t => if key_eqb k k' then Some v else lookup k t
    end.

  (* the `config` crate keeps overrides in a map: a later set_override of the same key replaces an
     earlier one *)
  Definition last_override (k : key) (ovs : list (key * value)) : option value := lookup k (rev ovs).

  Definition effective (defaults : key -> value) (file : option (list (key * value))) (ovs : list (key * value)) (k : key) : value :=
    match last_override k ovs with
    | Some v => v
    | None =>
        match file with
        | Some f => match lookup k f with Some v => v | None => defaults k end
        | None => defaults k
        end
    end.
End Layer.

(* --- which configuration file is used: --config-file wins (it must exist, else an error), else
   the ancestor search from the working directory --- *)
Inductive cfg_source := FromOption (path : dir) | FromSearch (d : dir) | NoFile | MissingOptionFile.

Definition config_source (has_file : dir -> bool) (opt_exists : bool) (opt : option dir) (cwd : dir) : cfg_source :=
  match opt with
  | Some p => if opt_exists then FromOption p else MissingOptionFile
  | None => match find_config_file has_file cwd with Some d => FromSearch d | None => NoFile end
  end.

(* --- mode defaults and validation --- *)
Inductive mode := MFiles | MStdout | MCheck.

Definition effective_mode (explicit : option mode) (is_stdin : bool) : mode :=
  match explicit with Some m => m | None => if is_stdin then MStdout else MFiles end.

(* validate: files mode with stdin is rejected *)
Definition validate (explicit : option mode) (is_stdin : bool) : bool :=
  negb (match effective_mode explicit is_stdin with MFiles => is_stdin | _ => false end).
