(* Model/Pipeline.v — core/src/formatter.rs: format_into_buf as a composition over the GENERATED
   stage list (Gen/Pipeline.v), and the expected structural inventories (Gen/Inventory.v). *)
From Coq Require Import String.
From PasfmtVerif Require Export Gen.Pipeline Gen.Inventory Model.Rewriters.

(* what a formatting stage may do to the token vector *)
Inductive fkind :=
  | FCounters   (* writes per-token counters only: TokenSpacing, EofNewline *)
  | FLower      (* LowercaseKeywords *)
  | FComment    (* CommentFormatter *)
  | FWrap.      (* OptimisingLineFormatter: counters + re-indentation of multi-line strings *)

Definition classify_formatter (s : stage) : option fkind :=
  match st_method s with
  | SFileFormatter =>
      if String.eqb (st_name s) "TokenSpacing" then Some FCounters
      else if String.eqb (st_name s) "LowercaseKeywords" then Some FLower
      else if String.eqb (st_name s) "CommentFormatter" then Some FComment
      else if String.eqb (st_name s) "OptimisingLineFormatter" then Some FWrap
      else None
  | SLineFormatter =>
      if String.eqb (st_name s) "FormatterSelector" && String.eqb (st_detail s) "Eof=EofNewline"
      then Some FCounters else None
  | _ => None
  end.

(* stages in front of FormattedTokens::new_from_tokens: they decide types, lines and ignore marks,
   never token text (inventory of set_content sites below) *)
Definition is_pre_stage (s : stage) : bool :=
  match st_method s with
  | SLexer => String.eqb (st_name s) "DelphiLexer"
  | SParser => String.eqb (st_name s) "DelphiLogicalLineParser"
  | STokenConsolidator => String.eqb (st_name s) "DistinguishGenericTypeParamsConsolidator"
  | SLinesConsolidator =>
      String.eqb (st_name s) "ConditionalDirectiveConsolidator" || String.eqb (st_name s) "DeindentPackageDirectives"
  | STokenIgnorer => String.eqb (st_name s) "FormattingToggler" || String.eqb (st_name s) "IgnoreAsmIstructions"
  | _ => false
  end.

Definition is_recon_stage (s : stage) : bool :=
  match st_method s with
  | SReconstructor => String.eqb (st_name s) "DelphiLogicalLinesReconstructor"
  | _ => false
  end.

Fixpoint formatters_then_recon (l : list stage) : option (list fkind) :=
  match l with
  | [] => None
  | [s] => if is_recon_stage s then Some [] else None
  | s :: r =>
      match classify_formatter s, formatters_then_recon r with
      | Some k, Some ks => Some (k :: ks)
      | _, _ => None
      end
  end.

Fixpoint skip_pre (l : list stage) : list stage :=
  match l with
  | s :: r => if is_pre_stage s then skip_pre r else l
  | [] => []
  end.

(* Some ks = the pipeline is: modelled pre-stages, then formatters of kinds ks, then the modelled
   reconstructor; None = something unknown is registered (a TokenRemover, a new rule, …) *)
Definition pipeline_shape (l : list stage) : option (list fkind) :=
  match l with
  | s :: _ => if is_pre_stage s then formatters_then_recon (skip_pre l) else None
  | [] => None
  end.

(* the order facts C08 relies on: spacing runs before the wrapper; EofNewline after spacing *)
Fixpoint index_of_name (n : string) (l : list stage) (i : nat) : option nat :=
  match l with
  | s :: r => if String.eqb (st_name s) n then Some i else index_of_name n r (S i)
  | [] => None
  end.

Definition order_ok (l : list stage) : bool :=
  match index_of_name "TokenSpacing" l 0, index_of_name "FormatterSelector" l 0, index_of_name "OptimisingLineFormatter" l 0 with
  | Some a, Some b, Some c => Nat.ltb a b && Nat.ltb b c
  | _, _, _ => false
  end.

(* the content-rewriting rules run before the wrapper: the wrapper measures the text that is emitted *)
Definition rewriters_before_wrapper (l : list stage) : bool :=
  match index_of_name "LowercaseKeywords" l 0, index_of_name "CommentFormatter" l 0, index_of_name "OptimisingLineFormatter" l 0 with
  | Some a, Some b, Some c => Nat.ltb a c && Nat.ltb b c
  | _, _, _ => false
  end.

(* ---- expected inventories: the sites this model accounts for ---- *)
Definition expected_set_content : list string := [
  "core/src/rules/comment_contents.rs:comment_is_separator";   (* = format_line_comment: the translator names the last nested fn *)
  "core/src/rules/comment_contents.rs:format_compiler_directive";
  "core/src/rules/lowercase_keywords.rs:format";
  "core/src/rules/optimising_line_formatter/multiline_strings.rs:format_multiline_strings" ]%string.

Definition expected_leading_whitespace_reads : list string := [
  "core/src/defaults/parser.rs:parse_asm_instructions";
  "core/src/defaults/reconstructor.rs:lacks_line_break";
  "core/src/defaults/reconstructor.rs:nonbreaking_ws_len";
  "core/src/defaults/reconstructor.rs:process_cursors";
  "core/src/defaults/reconstructor.rs:reconstruct";
  "core/src/defaults/reconstructor.rs:relocate_cursors";
  "core/src/defaults/reconstructor.rs:ws_len";
  "core/src/lang.rs:new_from_tokens";
  "core/src/rules/ignore_asm_instructions.rs:ignore_tokens"   (* F33 repair: is a conditional directive on the physical line of an asm instruction? (inside asm blocks only) *)
]%string.

Definition expected_max_line_length_uses : list string := [
  "core/src/rules/optimising_line_formatter/mod.rs:?";
  "core/src/rules/optimising_line_formatter/mod.rs:find_optimal_solution";
  "core/src/rules/optimising_line_formatter/mod.rs:get_decision_penalty";
  "front-end/src/lib.rs:from";
  "front-end/src/lib.rs:max_line_length" ]%string.

Definition expected_shared_state : list string := [
  "core/src/defaults/lexer.rs:find_identifier_end_x86_64";
  "front-end/src/lib.rs:inner";
  "front-end/src/main.rs:?";
  "front-end/src/main.rs:main" ]%string.

(* the five hook sites of Model/ParserKernel.v are the only code that mutates the parser's line state *)
Definition expected_kernel_mutations : list string := [
  "core/src/defaults/parser.rs:do_with_context";
  "core/src/defaults/parser.rs:finish_logical_line";
  "core/src/defaults/parser.rs:next_token";
  "core/src/defaults/parser.rs:skip_token";
  "core/src/defaults/parser.rs:take_separators_on_last_line" ]%string.

Definition expected_env_reads : list string := [ "orchestrator/src/command_line.rs:get_config_object" ]%string.

Fixpoint strings_eqb (a b : list string) : bool :=
  match a, b with
  | [], [] => true
  | x :: a', y :: b' => String.eqb x y && strings_eqb a' b'
  | _, _ => false
  end.
