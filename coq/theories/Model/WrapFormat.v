(* Model/WrapFormat.v — the line wrapper as a closed function of what it reads:
     mod.rs: OptimisingLineFormatter::format (the loop over the top-level lines, the second phase over the
     lines whose multi-line strings changed, with the child_line_cache kept across both), get_line_children,
     format_line, reconstruct_solution (as the list of hook events WD/WL it produces).
   The recursion of find_optimal_solution into child lines is closed here by a depth fuel (`solve`). *)
From PasfmtVerif Require Export Model.WrapSearch Model.WrapApply Model.Measure.

(* ------------------------------------------------------------------ *)
(* token table: a functional array indexed by the global token index *)
Definition ti_tree := ptree tokinfo.
Fixpoint ti_build (l : list tokinfo) (i : N) (t : ti_tree) : ti_tree :=
  match l with
  | [] => t
  | x :: r => ti_build r (N.succ i) (pt_set (N.succ_pos i) (Some x) t)
  end.
Definition ti_get (t : ti_tree) (i : N) : option tokinfo := pt_get (N.succ_pos i) t.

(* ------------------------------------------------------------------ *)
(* get_line_children *)
Definition lkey := (nat * N)%type.
Definition lkey_eqb (a b : lkey) : bool := (snd a =? snd b) && Nat.eqb (fst a) (fst b).

Fixpoint assoc_find {V} (k : lkey) (l : list (lkey * V)) : option V :=
  match l with [] => None | (k', v) :: r => if lkey_eqb k k' then Some v else assoc_find k r end.
Fixpoint assoc_upd {V} (k : lkey) (f : V -> V) (l : list (lkey * V)) : list (lkey * V) :=
  match l with [] => [] | (k', v) :: r => if lkey_eqb k k' then (k', f v) :: r else (k', v) :: assoc_upd k f r end.

(* get_line_tokens_before_gaps *)
Fixpoint tokens_before_gaps (toks : list N) : list N :=
  match toks with
  | [] => []
  | [a] => [a]
  | a :: ((b :: _) as r) => if a + 1 =? b then tokens_before_gaps r else a :: tokens_before_gaps r
  end.

(* partition_point(|gap| gap < first) - 1, then get: the last gap token before `first`
   (the gap list is ascending because a line's tokens are) *)
Fixpoint last_gap_before (first : N) (gaps : list N) (acc : option N) : option N :=
  match gaps with
  | [] => acc
  | g :: r => if g <? first then last_gap_before first r (Some g) else acc
  end.

(* internal line: (type, level, parent, tokens) with N token indices *)
Record iline := mkIL { il_type : LogicalLineType; il_level : N; il_parent : option lkey; il_toks : list N }.
Definition iline_of (l : lline) : iline :=
  mkIL (ll_type l) (ll_level l) (option_map (fun p : nat * nat => (fst p, N.of_nat (snd p))) (ll_parent l)) (map N.of_nat (ll_toks l)).

Record cmaps := mkCM { cm_parent : list (lkey * lkey); cm_children : list (lkey * (N * list nat * N)) }.   (* parent_token, line_indices (reversed), descendant_count *)

(* the `while let Some(parent) = current_line.and_then(get_parent)` loop; fuel = number of lines *)
Fixpoint lc_ancestors (fuel : nat) (lines : list iline) (pmap : list (lkey * lkey)) (line_index : nat) (cur : option iline) (first : bool)
    (cm : list (lkey * (N * list nat * N))) : list (lkey * (N * list nat * N)) :=
  match fuel with
  | O => cm
  | S f =>
      match match cur with Some l => il_parent l | None => None end with
      | None => cm
      | Some p =>
          let key := match assoc_find p pmap with Some k => k | None => p end in
          let cm := match assoc_find key cm with Some _ => cm | None => cm ++ [(key, (snd p, [], 0))] end in
          let cm := assoc_upd key (fun v : N * list nat * N =>
                                     let '(pt, ls, dc) := v in (pt, (if first then line_index :: ls else ls), dc + 1)) cm in
          lc_ancestors f lines pmap line_index (nth_error lines (fst p)) false cm
      end
  end.

Fixpoint lc_lines (all : list iline) (rest : list iline) (line_index : nat) (cm : cmaps) : cmaps :=
  match rest with
  | [] => cm
  | l :: r =>
      match il_toks l with
      | [] => lc_lines all r (S line_index) cm
      | first :: _ =>
          let pmap :=
            match il_parent l with
            | None => cm_parent cm
            | Some p =>
                let gaps := match nth_error all (fst p) with Some pl => tokens_before_gaps (il_toks pl) | None => [] end in
                match last_gap_before first gaps None with
                | Some m => if m =? snd p then cm_parent cm
                            else match assoc_find p (cm_parent cm) with
                                 | Some _ => cm_parent cm
                                 | None => (p, (fst p, m)) :: cm_parent cm
                                 end
                | None => cm_parent cm
                end
            end in
          lc_lines all r (S line_index) (mkCM pmap (lc_ancestors (S (length all)) all pmap line_index (Some l) true (cm_children cm)))
      end
  end.

Definition get_line_children (lines : list iline) : list (lkey * (N * list nat * N)) :=
  cm_children (lc_lines lines lines 0 (mkCM [] [])).

(* ------------------------------------------------------------------ *)
(* the view of one line *)
Fixpoint mk_recs (tt : ti_tree) (toks : list N) (prevtok : option N) (win : option TokenType) (stacks : list cstack)
    (kids : list (lkey * (N * list nat * N))) (line_index : nat) : list trec :=
  match toks with
  | [] => []
  | g :: rest =>
      let info := ti_get tt g in
      let ty := option_map ti_ty info in
      let fprev := if g =? 0 then None else option_map ti_ty (ti_get tt (g - 1)) in
      let cd := match prevtok with Some x => negb (g =? x + 1) | None => true end in
      let inv := formatting_invariant fprev ty cd in
      let stk := match stacks with s :: _ => s | [] => [] end in
      let k := match assoc_find (line_index, g) kids with
               | Some (pt, ls, dc) => Some (mkLCh pt (option_map ti_ty (ti_get tt pt)) (rev ls) dc)
               | None => None
               end in
      let r := mkTR g ty win fprev inv stk
                    (match info with Some i => ti_sp i | None => 0 end)
                    (match info with Some i => ti_len i | None => 0 end)
                    (match info with Some i => ti_ml i | None => None end) k in
      let win' := match ty with Some t => if is_comment_or_compiler_directive t then win else Some t | None => win end in
      r :: mk_recs tt rest (Some g) win' (tl stacks) kids line_index
  end.

(* the types LineFormattingContexts::new iterates over: up to the first token index without a token *)
Fixpoint line_types (tt : ti_tree) (toks : list N) : list TokenType :=
  match toks with
  | [] => []
  | g :: r => match ti_get tt g with Some i => ti_ty i :: line_types tt r | None => [] end
  end.

Definition mk_lview (tt : ti_tree) (kids : list (lkey * (N * list nat * N))) (line_index : nat) (l : iline) : lview :=
  let n := length (il_toks l) in
  let lc := line_contexts_new (il_type l) n (line_types tt (il_toks l)) in
  let mine := filter (fun e : lkey * (N * list nat * N) => Nat.eqb (fst (fst e)) line_index) kids in
  mkLV line_index (il_type l) (il_level l)
       (match il_parent l with None => negb (il_type l IS LLT_Eof) | Some _ => false end)
       (il_toks l)
       (mk_recs tt (il_toks l) None None (lc_stacks lc) mine line_index)
       (lc_count lc).

Fixpoint mk_lviews_from (tt : ti_tree) (kids : list (lkey * (N * list nat * N))) (i : nat) (ls : list iline) : list lview :=
  match ls with [] => [] | l :: r => mk_lview tt kids i l :: mk_lviews_from tt kids (S i) r end.

Definition mk_lviews (infos : list tokinfo) (lines : list lline) : list lview :=
  let ils := map iline_of lines in
  mk_lviews_from (ti_build infos 0 PLeaf) (get_line_children ils) 0 ils.

(* ------------------------------------------------------------------ *)
(* find_optimal_solution with the recursion into child lines closed by a depth fuel
   (depth = number of lines suffices when every child line comes after its parent) *)
Fixpoint solve (W : wsettings) (lvs : list lview) (fmain : nat) (depth : nat) (st : sst) (lv : lview) (ws : N * N) (fd : first_decision)
    : sst * option solution :=
  match depth with
  | O => (sst_err st, None)
  | S k =>
      let (st, r) := find_optimal_solution W lvs fmain (solve W lvs fmain k) lv st ws fd in
      (st, match r with SR_ok s => Some s | _ => None end)
  end.

(* reconstruct_solution: the hook events in the order the decisions are applied *)
Fixpoint recon_events (lvs : list lview) (s : solution) (toks : list N) {struct s} : list event :=
  match s with
  | Sol ind cont decs _ _ =>
      (fix go (ds : list tdec) (toks : list N) (first : bool) {struct ds} : list event :=
         match ds, toks with
         | TDec d lll kids :: ds', t :: toks' =>
             Ev_D t (match d with WBreak c => Some (first, ind, cont + c) | WContinue => None end) lll first
             :: (fix gk (ks : list (nat * solution)) {struct ks} : list event :=
                   match ks with
                   | [] => []
                   | (k, s') :: r => recon_events lvs s' (match nth_error lvs k with Some lv => lv_gtoks lv | None => [] end) ++ gk r
                   end) kids
             ++ go ds' toks' false
         | _, _ => []
         end) decs toks true
  end.

(* format_line + reconstruct_solution for one top-level line *)
Definition format_top (W : wsettings) (lvs : list lview) (fmain depth : nat) (st : sst) (lv : lview) : sst :=
  if lv_type lv IS LLT_AsmInstruction then st
  else
    let fd := match lv_gtoks lv with g :: _ => if g =? 0 then FD_Continue 0 true else FD_Break | [] => FD_Break end in
    let (st, r) := solve W lvs fmain depth st lv (lv_level lv, 0) fd in
    match r with
    | Some s => fold_left (fun st e => sst_log e st) (recon_events lvs s (lv_gtoks lv)) st
    | None => st
    end.

Definition main_fuel (W : wsettings) : nat := N.to_nat (w_iter W) + 3.

(* one phase: the given lines, in order *)
Definition wrap_phase (W : wsettings) (infos : list tokinfo) (lines : list lline) (which : lview -> bool) (st : sst) : sst :=
  let lvs := mk_lviews infos lines in
  let fm := main_fuel W in
  let depth := S (length lines) in
  fold_left (fun st lv => if which lv then format_top W lvs fm depth st lv else st) lvs st.

Definition sst_init : sst := mkSst [] [] false.

(* phase 1: every top-level line that is not the Eof line *)
Definition wrap_phase1 (W : wsettings) (infos : list tokinfo) (lines : list lline) : sst :=
  wrap_phase W infos lines lv_top sst_init.

(* phase 2: the top-level ancestors of the lines whose multi-line strings changed (sorted, without duplicates),
   with the token lengths of phase 1 and the multi-line lengths of the state after the string stage *)
Definition wrap_phase2 (W : wsettings) (infos2 : list tokinfo) (lines : list lline) (reflow : list nat) (st : sst) : sst :=
  wrap_phase W infos2 lines (fun lv => existsb (Nat.eqb (lv_idx lv)) reflow) st.

(* ------------------------------------------------------------------ *)
(* the whole OptimisingLineFormatter::format on the token vector *)
Definition tokinfo_of (p : ftoken) : tokinfo :=
  mkTI (t_ty (fst p)) (f_sp (snd p)) (blen (t_content (fst p))) (ml_measure (fst p)).

Definition wsettings_of (rs : rsettings) (max_line_length iteration_max : N) (break_before_begin : bool) : wsettings :=
  mkWS max_line_length iteration_max break_before_begin (blen (rs_indent rs)) (blen (rs_cont rs)).

Fixpoint plan_of_events (evs : list event) : list (nat * decision) :=
  match evs with
  | [] => []
  | Ev_D t (Some (first, ind, cont)) _ _ :: r => (N.to_nat t, DBreak first ind cont) :: plan_of_events r
  | Ev_D t None _ _ :: r => (N.to_nat t, DContinue) :: plan_of_events r
  | _ :: r => plan_of_events r
  end.

(* the top-level ancestor of a line *)
Fixpoint top_ancestor (fuel : nat) (lines : list lline) (i : nat) : nat :=
  match fuel with
  | O => i
  | S f => match nth_error lines i with
           | Some l => match ll_parent l with Some (p, _) => top_ancestor f lines p | None => i end
           | None => i
           end
  end.

(* format_multiline_strings line by line; returns the new vector and the lines to reflow (ascending, unique) *)
Fixpoint ml_lines (rs : rsettings) (all : list lline) (rest : list lline) (i : nat) (l : list ftoken) (acc : list nat) : list ftoken * list nat :=
  match rest with
  | [] => (l, acc)
  | ln :: r =>
      let (l', changed) := fold_left (ml_visit rs) (ll_toks ln) (l, false) in
      ml_lines rs all r (S i) l' (if changed then top_ancestor (S (length all)) all i :: acc else acc)
  end.

Fixpoint insert_unique (x : nat) (l : list nat) : list nat :=
  match l with
  | [] => [x]
  | y :: r => if Nat.eqb x y then l else if Nat.ltb x y then x :: l else y :: insert_unique x r
  end.

Definition olf_model (rs : rsettings) (W : wsettings) (format_ml : bool) (lines : list lline) (l : list ftoken)
    : list ftoken * list event * bool :=
  let infos := map tokinfo_of l in
  let orig_sp := map (fun p : ftoken => f_sp (snd p)) l in
  let st1 := wrap_phase1 W infos lines in
  let a := zero_line_starts (apply_plan (plan_of_events (rev (ss_log st1))) l) in
  let st1 := sst_log (Ev_Phase 1) st1 in
  if format_ml then
    let (b, refl) := ml_lines rs lines lines 0 a [] in
    let reflow := fold_left (fun acc x => insert_unique x acc) refl [] in
    let st1 := sst_log (Ev_Phase 2) st1 in
    match reflow with
    | [] => (b, rev (ss_log st1), ss_fuel_err st1)
    | _ =>
        (* token_lengths is the vector built before phase 1; the multi-line lengths are read from the live tokens *)
        let infos2 := map (fun pq : tokinfo * ftoken => mkTI (ti_ty (fst pq)) (ti_sp (fst pq)) (ti_len (fst pq)) (ml_measure (fst (snd pq))))
                          (combine infos b) in
        let n1 := length (ss_log st1) in
        let st2 := wrap_phase2 W infos2 lines reflow st1 in
        let evs2 := firstn (length (ss_log st2) - n1) (ss_log st2) in
        (respace orig_sp (apply_plan (plan_of_events (rev evs2)) b), rev (ss_log st2), ss_fuel_err st2)
    end
  else (a, rev (ss_log st1), ss_fuel_err st1).
