(* Model/Penalty.v — the line-length term of optimising_line_formatter/mod.rs: get_decision_penalty
   (RawDecision::Continue arm) and the over-length test of find_optimal_solution.
   wrap_column reaches the wrapper only as max_line_length (inventory), and only in `len > W`. *)
From PasfmtVerif Require Export Base.Bytes.

Definition default_break_penalty : N := 3.

(* 2^20 + (len - W) * DEFAULT_BREAK_PENALTY for a token that ends beyond W, else 0 *)
Definition over_penalty (W len : N) : N :=
  if W <? len then 1048576 + (len - W) * default_break_penalty else 0.

Definition too_long (W len : N) : bool := W <? len.

(* a candidate wrapping of one logical line: the break penalties it pays and, per token that
   continues a line, the column at which that token ends *)
Record candidate := mkCand { c_breaks : list N; c_ends : list N }.

Fixpoint nsum (l : list N) : N := match l with [] => 0 | a :: t => a + nsum t end.

Definition total_penalty (W : N) (c : candidate) : N :=
  nsum (c_breaks c) + nsum (map (over_penalty W) (c_ends c)).

Definition fits (W : N) (c : candidate) : bool := forallb (fun len => negb (too_long W len)) (c_ends c).
