(* Model/Canon.v — executable acceptance predicates on the final per-token formatting data:
   what C08 needs from the wrapper's plan (hypothesis H-W1), evaluated on every real trace. *)
From PasfmtVerif Require Export Model.Token.

(* a token the formatter decides (not ignored) is either a line start (breaks, no spaces) or a
   continuation (at most one space, no indentation); at most one blank line; none at the file start
   (an empty input legitimately formats to one terminator: token 0 is then Eof) *)
Definition canon_tok (first : bool) (p : ftoken) : bool :=
  let f := snd p in
  f_ignored f
  || ((if 0 <? f_nl f then f_sp f =? 0 else (f_ind f =? 0) && (f_cont f =? 0) && (f_sp f <=? 1))
      && (f_nl f <=? 2)
      && (if first then (f_nl f =? 0) || is_eof (t_ty (fst p)) else true)).

Fixpoint canon_fmt_from (first : bool) (l : list ftoken) : bool :=
  match l with
  | [] => true
  | p :: r => canon_tok first p && canon_fmt_from false r
  end.

Definition canon_fmt (l : list ftoken) : bool := canon_fmt_from true l.

(* index of the first token violating canon_tok, for diagnostics *)
Fixpoint canon_first_bad (first : bool) (l : list ftoken) (i : nat) : option nat :=
  match l with
  | [] => None
  | p :: r => if canon_tok first p then canon_first_bad false r (S i) else Some i
  end.

(* the last token is Eof with exactly one line break and nothing else in front *)
Definition eof_canon (l : list ftoken) : bool :=
  match rev l with
  | (tok, f) :: _ => is_eof (t_ty tok) && (f_nl f =? 1) && (f_ind f =? 0) && (f_cont f =? 0) && (f_sp f =? 0)
                     && match t_content tok with [] => true | _ => false end
  | [] => false
  end.

(* last byte of a content is not a blank (<= 0x20, or the end of E3 80 80) *)
Definition ends_nonblank (c : bytes) : bool :=
  match rev c with
  | [] => true
  | z :: r => negb (z <=? 32)
              && negb (match r with y :: x :: _ => (x =? 227) && (y =? 128) && (z =? 128) | _ => false end)
  end.
