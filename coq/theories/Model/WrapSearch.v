(* Model/WrapSearch.v — core/src/rules/optimising_line_formatter: the search.
     mod.rs:          get_line_children, format_line, find_optimal_solution (BinaryHeap, best_penalties pruning,
                      successor compression, indifference compression, iteration limit), get_potential_solution,
                      find_continuations_for_token_index, find_optimal_child_lines_solution (+ child_line_cache),
                      get_last_child_line_len, get_token_line_length, get_decision_penalty, reconstruct_solution
                      (as the list of decisions it applies), and the two phases of OptimisingLineFormatter::format;
     contexts.rs:     FormattingContextState, SpecificContextDataStack (parents_support_break, get_last_context,
                      get_continuation_count), SpecificContextStack::update_contexts,
                      update_contexts_from_child_solutions, update_operator_precedences;
     requirements.rs: get_formatting_requirement;
     types.rs:        Ord for FormattingNode, FormattingSolution::from(FormattingNode), Potentials;
     alloc::collections::BinaryHeap: push, pop, extend (rebuild_tail, rebuild, sift_up, sift_down_range,
                      sift_down_to_bottom).

   What the search reads (the signature of `wrap_phase`): the logical lines (type, level, parent, token indices);
   per token its type, spaces_before, content length and — for multi-line strings / multi-line block comments —
   the length of the last line of its content; max_line_length, iteration_max, break_before_begin; the lengths
   of the indentation and continuation strings.  Nothing else.

   Arithmetic: u16/u32/u64 values are N without wrap-around.  The harness is built with overflow checks, so an
   overflow would be a panic there (never observed); TokenDecision::requirement is not carried (it is only read
   by the debug output). *)
From PasfmtVerif Require Export Model.Token Model.Lines Model.Requirements Model.WrapContexts.

(* ------------------------------------------------------------------ *)
(* small helpers *)
Fixpoint upd_at {A} (i : nat) (f : A -> A) (l : list A) : list A :=
  match l, i with
  | [], _ => []
  | x :: r, O => f x :: r
  | x :: r, S j => x :: upd_at j f r
  end.

Definition opt_or {A} (a b : option A) : option A := match a with Some _ => a | None => b end.
Definition get_or_insert (o : option bool) (b : bool) : option bool := match o with Some _ => o | None => Some b end.

(* requirements.rs: trait IfElse *)
Definition if_else_or {T} (o : option bool) (yes no el : T) : T :=
  match o with None => el | Some true => yes | Some false => no end.
Definition if_else_map {T} (o : option bool) (yes no : T) : option T := option_map (fun v : bool => if v then yes else no) o.

(* ------------------------------------------------------------------ *)
(* a functional array indexed by positive *)
Inductive ptree (A : Type) : Type := PLeaf | PNode (l : ptree A) (x : option A) (r : ptree A).
Arguments PLeaf {A}.
Arguments PNode {A}.

Fixpoint pt_get {A} (p : positive) (t : ptree A) : option A :=
  match t with
  | PLeaf => None
  | PNode l x r => match p with xH => x | xO q => pt_get q l | xI q => pt_get q r end
  end.
Fixpoint pt_set {A} (p : positive) (v : option A) (t : ptree A) : ptree A :=
  match p with
  | xH => match t with PLeaf => PNode PLeaf v PLeaf | PNode l _ r => PNode l v r end
  | xO q => match t with PLeaf => PNode (pt_set q v PLeaf) None PLeaf | PNode l x r => PNode (pt_set q v l) x r end
  | xI q => match t with PLeaf => PNode PLeaf None (pt_set q v PLeaf) | PNode l x r => PNode l x (pt_set q v r) end
  end.

(* ------------------------------------------------------------------ *)
(* FormattingContextState *)
Record cstate := mkSt { s_broken : bool; s_can : bool; s_child : bool; s_oepl : option bool; s_bar : option bool }.
Definition st_default : cstate := mkSt false true false None None.
(* FormattingNode::context_data (Vec<FormattingContextState>, one per context of the line): a functional array,
   a missing entry is the default state *)
Definition cdata := ptree cstate.
Definition st_at (d : cdata) (i : positive) : cstate := match pt_get i d with Some s => s | None => st_default end.
Definition dt_upd (i : positive) (f : cstate -> cstate) (d : cdata) : cdata := pt_set i (Some (f (st_at d i))) d.

Definition st_pivotal (ib : bool) (s : cstate) : cstate := mkSt (s_broken s || ib) (s_can s && ib) (s_child s) (s_oepl s) (s_bar s).
Definition st_break (ib : bool) (s : cstate) : cstate := mkSt (s_broken s || ib) (s_can s) (s_child s) (s_oepl s) (s_bar s).
Definition st_set_broken (s : cstate) : cstate := mkSt true (s_can s) (s_child s) (s_oepl s) (s_bar s).
Definition st_can (ib : bool) (s : cstate) : cstate := mkSt (s_broken s) (s_can s && ib) (s_child s) (s_oepl s) (s_bar s).
Definition st_child (ib : bool) (s : cstate) : cstate := mkSt (s_broken s) (s_can s) (s_child s || ib) (s_oepl s) (s_bar s).
Definition st_oepl_ins (ib : bool) (s : cstate) : cstate := mkSt (s_broken s) (s_can s) (s_child s) (get_or_insert (s_oepl s) ib) (s_bar s).
Definition st_oepl_set (s : cstate) : cstate := mkSt (s_broken s) (s_can s) (s_child s) (Some true) (s_bar s).
Definition st_bar_ins (ib : bool) (s : cstate) : cstate := mkSt (s_broken s) (s_can s) (s_child s) (s_oepl s) (get_or_insert (s_bar s) ib).
Definition st_bar_set (s : cstate) : cstate := mkSt (s_broken s) (s_can s) (s_child s) (s_oepl s) (Some true).

Definition any_ct (_ : ContextType) : bool := true.

(* SpecificContextDataStack::get_last_context *)
Definition glc (flt : ContextType -> bool) (stk : cstack) (d : cdata) (nli : N) : option (fctx * cstate) :=
  match find (fun p : positive * fctx => negb (c_start (snd p) =? nli) && flt (c_ty (snd p))) stk with
  | Some (i, c) => Some (c, st_at d i)
  | None => None
  end.
Definition glc_d {T} (flt : ContextType -> bool) (stk : cstack) (d : cdata) (nli : N) (f : cstate -> T) : option T :=
  option_map (fun p : fctx * cstate => f (snd p)) (glc flt stk d nli).
Definition glc_o (flt : ContextType -> bool) (stk : cstack) (d : cdata) (nli : N) (f : cstate -> option bool) : option bool :=
  match glc flt stk d nli with Some (_, s) => f s | None => None end.

(* SpecificContextDataStack::parents_support_break *)
Definition parents_support_break (stk : cstack) (d : cdata) (nli : N) : bool :=
  forallb (fun p : positive * fctx => if is_active_at (snd p) nli then s_can (st_at d (fst p)) else true) stk.

(* SpecificContextDataStack::get_continuation_count (the u64 sum `as u16` is not truncated here) *)
Definition get_continuation_count (stk : cstack) (d : cdata) (li : N) : N :=
  fold_left (fun acc (p : positive * fctx) =>
               let c := snd p in
               let closing := match c_end c with Some e => e =? li | None => false end && is_brackets (c_ty c) in
               if s_broken (st_at d (fst p)) && is_active_at c li && negb closing then acc + c_delta c else acc) stk 0.

(* ------------------------------------------------------------------ *)
(* requirements.rs: get_formatting_requirement.
   lt = line type; win = the last token type before the token that is neither a comment nor a compiler directive;
   cur = the token's type; inv = get_formatting_invariant(line_index, line); stk = the context stack at the token;
   d, nli = the node's context data and next_line_index *)
Definition tt_directive (t : option TokenType) : bool := match t with Some (TT_Keyword kk) => kk_is_directive kk | _ => false end.
Definition tt_cd (p : ConditionalDirectiveKind -> bool) (t : option TokenType) : bool :=
  match t with Some (TT_ConditionalDirective k) => p k | _ => false end.
Definition tt_has_prec (t : option TokenType) : bool :=
  match t with Some ((TT_Op _ | TT_Keyword _) as op) => match get_operator_precedence op with Some _ => true | None => false end | _ => false end.

Definition get_formatting_requirement (lt : LogicalLineType) (win cur : option TokenType) (inv : option DecisionRequirement)
    (stk : cstack) (d : cdata) (nli : N) : DecisionRequirement :=
  match stk with
  | [] => DR_Invalid
  | (top_i, top) :: _ =>
  let psb := parents_support_break stk d nli in
  match inv with
  | Some v => map_can_break v psb
  | None =>
  let MB := DR_MustBreak in let MNB := DR_MustNotBreak in let IND := DR_Indifferent in
  let g {T} flt (f : cstate -> T) := glc_d flt stk d nli f in
  let broken_or_child (s : cstate) := s_child s || s_broken s in
  let r :=
    if (win, cur) IS (Some (TT_Op OK_LParen), Some (TT_Op OK_RParen)) then
      if_else_or (g (fun t => t IS CT_Brackets BK_Round _) broken_or_child) MB MNB MNB
    else if (win, cur) IS (Some (TT_Op OK_LBrack), Some (TT_Op OK_RBrack)) then MNB
    else if (win, cur) IS (Some (TT_Op (OK_GreaterThan ChK_Generic)), Some (TT_Op OK_LParen)) then MNB
    else if (win, cur) IS (Some (TT_Keyword (KK_Class | KK_Record)), Some (TT_Keyword (KK_Helper | KK_Abstract | KK_Sealed))) then MNB
    else if (win, cur) IS (Some (TT_Keyword KK_Helper | TT_Op OK_RParen), Some (TT_Keyword KK_For)) then MNB
    else if win IS Some (TT_Op (OK_Caret CaK_Type)) then MNB
    else if cur IS Some (TT_Op (OK_Caret CaK_Deref)) then MNB
    else if (lt IS (LLT_RoutineHeader | LLT_PropertyDeclaration)) && tt_directive cur then
      if_else_or (glc_o (fun t => t IS CT_DirectiveList) stk d nli s_oepl) MB MNB IND
    else if win IS Some (TT_Op OK_Comma) then
      let import_requirement := if lt IS (LLT_ImportClause | LLT_ExportClause) then Some MB else None in
      let comma_list_requirement := if_else_map (glc_o (fun t => t IS CT_CommaList) stk d nli s_oepl) MB MNB in
      let parens_requirement :=
        if_else_map (match glc (fun t => t IS (CT_Brackets _ _ | CT_SemicolonList)) stk d nli with
                     | Some (c, s) => if c_ty c IS CT_SemicolonList then None else Some (s_broken s)
                     | None => None
                     end) MB IND in
      match opt_or (opt_or import_requirement comma_list_requirement) parens_requirement with Some x => x | None => IND end
    else if win IS Some (TT_Op OK_Semicolon) then
      let semicolon_list_requirement := if_else_map (glc_o (fun t => t IS CT_SemicolonList) stk d nli s_oepl) MB MNB in
      let parens_requirement := if_else_map (g is_brackets s_broken) MB IND in
      match opt_or semicolon_list_requirement parens_requirement with Some x => x | None => IND end
    else if (win, cur) IS (Some (TT_Keyword (KK_Class | KK_To)), Some (TT_Keyword (KK_Function | KK_Procedure | KK_Constructor | KK_Destructor))) then MNB
    else if (win, cur) IS (Some (TT_Keyword (KK_Function | KK_Procedure | KK_Constructor | KK_Destructor)), Some (TT_Identifier | TT_ConditionalDirective _)) then MNB
    else if tt_cd ConditionalDirectiveKind_is_if win || tt_cd ConditionalDirectiveKind_is_if cur then IND
    else if tt_cd ConditionalDirectiveKind_is_else win then
      if_else_or (glc_o (fun t => t IS CT_ConditionalDirective) stk d nli s_oepl) MB MNB IND
    else if cur IS Some (TT_ConditionalDirective _) then
      if_else_or (glc_o (fun t => t IS CT_ConditionalDirective) stk d nli s_oepl) MB MNB IND
    else if (win, cur) IS (Some (TT_Identifier | TT_Keyword (KK_Interface | KK_Class | KK_Helper | KK_Abstract | KK_Sealed | KK_Function | KK_Procedure | KK_Array | KK_String)),
                           Some (TT_Op (OK_LParen | OK_LBrack | OK_LessThan ChK_Generic))) then MNB
    else if ((win, cur) IS (Some (TT_Op OK_Colon), Some (TT_Op OK_LParen))) && (lt IS LLT_VariantRecordCaseArm) then MNB
    else if win IS Some (TT_Op (OK_LParen | OK_LBrack | OK_LessThan ChK_Generic)) then
      if_else_or (option_map (fun p : fctx * cstate => c_ty (fst p) IS CT_Brackets _ BS_Invisible) (glc is_brackets stk d nli)) MNB IND IND
    else if (win, cur) IS (Some (TT_Keyword KK_Reference), Some (TT_Keyword KK_To)) then MNB
    else if cur IS Some (TT_Op (OK_RParen | OK_GreaterThan ChK_Generic | OK_RBrack)) then
      if_else_or (option_map (fun p : fctx * cstate => (c_ty (fst p) IS CT_Brackets _ (BS_BreakClose | BS_Expanded)) && s_broken (snd p))
                             (glc is_brackets stk d nli)) MB MNB IND
    else if cur IS Some (TT_Op (OK_Comma | OK_Semicolon | OK_Colon | OK_Assign)) then MNB
    else if (cur IS Some (TT_Op OK_Dot)) && (c_ty top IS CT_MemberAccess) then
      if match glc (fun t => t IS (CT_RoutineHeader | CT_Brackets _ _ | CT_Type)) stk d nli with
         | Some (c, _) => c_ty c IS CT_RoutineHeader
         | None => false
         end
      then MNB
      else if_else_or (s_oepl (st_at d top_i)) MB MNB IND
    else if cur IS Some (TT_Op (OK_Equal EK_Decl)) then MNB
    else if cur IS Some (TT_Keyword (KK_In IK_ForLoop | KK_To | KK_Downto)) then
      if_else_or (g (fun t => t IS CT_ForLoop) s_child) MB IND IND
    else if (win IS Some (TT_Keyword (KK_In IK_ForLoop | KK_To | KK_Downto))) && (lt IS LLT_ForLoop) then MNB
    else if cur IS Some (TT_Keyword KK_At) then
      if_else_or (g (fun t => t IS CT_RaiseAt) (fun s => s_broken s || s_child s)) MB IND IND
    else if tt_has_prec cur && match cur with Some op => is_binary op win | None => false end then
      if_else_or (if c_ty top IS CT_Precedence _ then s_oepl (st_at d top_i) else None) MB MNB IND
    else if (win, cur) IS (Some (TT_Op (OK_Equal EK_Decl)),
                           Some (TT_Keyword (KK_Class | KK_Interface | KK_Record | KK_DispInterface | KK_Packed | KK_Object))) then IND
    else if win IS Some (TT_Op (OK_Equal EK_Decl | OK_Assign)) then
      if_else_or (g (fun t => t IS (CT_TypedAssignment | CT_Assignment)) (fun s => s_broken s || s_child s)) MB IND IND
    else if tt_has_prec win then MNB
    else if cur IS Some (TT_Keyword KK_End) then
      if_else_or (glc_o (fun t => t IS (CT_CommaElem | CT_AssignRHS)) stk d nli s_bar) MB MNB IND
    else if win IS Some (TT_Keyword (KK_If | KK_Case | KK_While | KK_Until | KK_On)) then MNB
    else if win IS Some (TT_Keyword KK_With) then
      if_else_or (option_map (fun p : positive * fctx => c_ty (snd p) IS CT_CommaList)
                             (find (fun p : positive * fctx => c_ty (snd p) IS (CT_CommaList | CT_GuardClause)) stk)) IND MNB IND
    else if win IS Some (TT_Keyword (KK_Raise | KK_At)) then MNB
    else if (win, cur) IS (Some (TT_Keyword KK_Of), Some (TT_Op OK_LParen)) then MNB
    else if (win, cur) IS (Some (TT_Keyword KK_Of), Some (TT_Keyword KK_Object)) then
      if_else_or (option_map (fun p : positive * fctx => s_child (st_at d (fst p)))
                             (find (fun p : positive * fctx => c_ty (snd p) IS CT_AssignRHS) stk)) IND MNB IND
    else if win IS Some (TT_Keyword KK_Of) then
      if_else_or (g (fun t => t IS CT_Base) s_child) IND MNB IND
    else if cur IS Some (TT_Keyword (KK_Then | KK_Do | KK_Of)) then MNB
    else if (win, cur) IS (Some (TT_Keyword (KK_Then | KK_Do)), Some (TT_Keyword KK_Begin)) then
      if_else_or (g (fun t => t IS CT_ControlFlowBegin) s_child) MB IND IND
    else if cur IS Some (TT_Keyword KK_Else) then MB
    else if (win, cur) IS (Some _, Some (TT_Keyword KK_Begin)) then
      if_else_or (glc_o (fun t => t IS (CT_CommaElem | CT_AssignRHS)) stk d nli s_bar) MB MNB IND
    else if win IS Some (TT_Keyword (KK_Const (DK_Inline | DK_Param) | KK_Var (DK_Inline | DK_Param))) then MNB
    else if (win, cur) IS (Some (TT_Keyword KK_Property), Some TT_Identifier) then MNB
    else if (win IS Some (TT_Keyword KK_For)) && (lt IS LLT_ForLoop) then MNB
    else IND in
  let r :=
    match r with
    | DR_Indifferent =>
        if tt_cd ConditionalDirectiveKind_is_end win then
          match cur with
          | Some TT_Identifier => if_else_or (g any_ct s_child) MB IND IND
          | Some _ => MB
          | None => r
          end
        else r
    | _ => r
    end in
  map_can_break r psb
  end
  end.

(* ------------------------------------------------------------------ *)
(* contexts.rs: update_last_matching_context: the first ACTIVE context of the stack whose type passes *)
Definition ulm (flt : ContextType -> bool) (op : fctx -> cstate -> cstate) (stk : cstack) (nli : N) (d : cdata) : cdata :=
  match find (fun p : positive * fctx => is_active_at (snd p) nli && flt (c_ty (snd p))) stk with
  | Some (i, c) => dt_upd i (op c) d
  | None => d
  end.

Fixpoint take_while_prec (stk : cstack) : cstack :=
  match stk with
  | (i, c) :: r => if c_ty c IS CT_Precedence _ then (i, c) :: take_while_prec r else []
  | [] => []
  end.

(* update_operator_precedences *)
Definition update_operator_precedences (stk : cstack) (nli : N) (ib : bool) (d : cdata) : cdata :=
  let d := ulm (fun t => t IS (CT_Precedence _ | CT_ConditionalDirective))
               (fun c s => if c_ty c IS CT_Precedence _ then st_can ib (st_oepl_ins ib s) else s) stk nli d in
  if ib then fold_left (fun d (p : positive * fctx) => dt_upd (fst p) (fun s => st_oepl_set (st_set_broken s)) d) (take_while_prec stk) d
  else d.

(* SpecificContextStack::update_contexts; nli = node.next_line_index = the token's line index *)
Definition update_contexts (lt : LogicalLineType) (win cur : option TokenType) (stk : cstack) (nli : N) (ib : bool)
    (d : cdata) : cdata :=
  let d := fold_left (fun d (p : positive * fctx) => if is_active_at (snd p) nli then dt_upd (fst p) (st_child ib) d else d) (tl stk) d in
  let piv (_ : fctx) := st_pivotal ib in
  let brk (_ : fctx) := st_break ib in
  let d :=
    if cur IS Some (TT_TextLiteral TK_MultiLine) then
      update_operator_precedences stk nli true (ulm any_ct (fun _ => st_set_broken) stk nli d)
    else if cur IS Some (TT_Comment (CoK_InlineBlock | CoK_InlineLine)) then d
    else if win IS Some (TT_Op (OK_LParen | OK_LBrack | OK_LessThan ChK_Generic)) then
      ulm is_brackets (fun c s => st_break ib (if c_ty c IS CT_Brackets _ BS_Invisible then s else st_can ib s)) stk nli d
    else if tt_directive cur then ulm (fun t => t IS (CT_DirectivesLine | CT_DirectiveList | CT_CommaElem)) piv stk nli d
    else if tt_directive win then ulm (fun t => t IS CT_Directive) piv stk nli d
    else if win IS Some (TT_Op OK_Comma) then ulm (fun t => t IS CT_CommaList) piv stk nli d
    else if win IS Some (TT_Op OK_Semicolon) then
      ulm (fun t => t IS CT_SemicolonList) (fun _ s => st_pivotal ib (st_oepl_ins ib s)) stk nli d
    else if (win, cur) IS (Some (TT_Op OK_Colon), Some (TT_Op OK_LParen)) then ulm (fun t => t IS (CT_SemicolonElem | CT_Base)) brk stk nli d
    else if win IS Some (TT_Op OK_Colon) then ulm any_ct piv stk nli d
    else if win IS Some (TT_Keyword (KK_If | KK_While | KK_Until | KK_On | KK_Case)) then ulm (fun t => t IS CT_ControlFlowBegin) brk stk nli d
    else if win IS Some (TT_Keyword KK_With) then
      let d := match find (fun p : positive * fctx => c_ty (snd p) IS (CT_CommaList | CT_GuardClause)) stk with
               | Some (i, c) => if c_ty c IS CT_CommaList
                                then ulm (fun t => t IS CT_ControlFlow) piv stk nli (dt_upd i (st_pivotal ib) d)
                                else d
               | None => d
               end in
      ulm (fun t => t IS CT_ControlFlowBegin) brk stk nli d
    else if win IS Some (TT_Keyword KK_Else) then ulm (fun t => t IS CT_ControlFlowBegin) brk stk nli d
    else if cur IS Some (TT_Keyword (KK_Begin | KK_End)) then
      let d := ulm (fun t => t IS CT_ControlFlowBegin) brk stk nli d in
      let d := ulm (fun t => t IS CT_CommaElem) (fun _ s => st_bar_ins ib (st_can ib s)) stk nli d in
      ulm (fun t => t IS CT_AssignRHS) (fun _ s => st_bar_ins ib s) stk nli d
    else if (win IS Some (TT_Keyword KK_For)) && negb (lt IS LLT_ForLoop) then ulm (fun t => t IS CT_Subject) piv stk nli d
    else if (win, cur) IS (Some (TT_Op (OK_Assign | OK_Equal EK_Decl)), Some (TT_Keyword KK_Set)) then ulm (fun t => t IS CT_Base) brk stk nli d
    else if win IS Some (TT_Op (OK_Assign | OK_Equal EK_Decl)) then
      let is_type_parens := match stk with (_, c) :: _ => c_ty c IS CT_Brackets BK_Round BS_BreakClose | [] => false end in
      ulm (fun t => t IS (CT_Base | CT_Type | CT_TypedAssignment | CT_Assignment | CT_Subject | CT_SemicolonElem | CT_CommaElem))
          (fun _ s => let s := st_break ib s in
                      if negb (lt IS LLT_Declaration) || negb is_type_parens then st_can ib s else s) stk nli d
    else if cur IS Some (TT_Keyword (KK_In IK_ForLoop | KK_To | KK_Downto)) then ulm (fun t => t IS CT_ForLoop) piv stk nli d
    else if win IS Some (TT_Keyword (KK_In IK_ForLoop | KK_To | KK_Downto)) then d
    else if win IS Some (TT_Keyword KK_Raise) then d
    else if cur IS Some (TT_Keyword KK_At) then ulm (fun t => t IS CT_RaiseAt) piv stk nli d
    else if win IS Some (TT_Keyword KK_At) then d
    else if (win IS Some (TT_Keyword KK_Type)) && match cur with Some ty => negb (ty IS TT_Keyword KK_Of) | None => false end then
      ulm any_ct piv stk nli d
    else if (win, cur) IS (Some (TT_Keyword KK_Of), Some (TT_Op OK_LParen)) then d
    else if win IS Some (TT_Keyword KK_Of) then ulm any_ct piv stk nli d
    else if win IS Some (TT_Keyword (KK_Uses | KK_Contains | KK_Requires | KK_Exports)) then ulm (fun t => t IS CT_Base) piv stk nli d
    else if cur IS Some (TT_Op OK_Dot) then
      match find (fun p : positive * fctx => is_active_at (snd p) nli && (c_ty (snd p) IS (CT_Precedence _ | CT_MemberAccess))) stk with
      | Some (i, c) =>
          if c_ty c IS CT_Precedence _ then update_operator_precedences stk nli ib d
          else dt_upd i (fun s => st_break ib (st_oepl_ins ib s)) d
      | None => d
      end
    else if tt_has_prec cur && match cur with Some op => is_binary op win | None => false end then
      update_operator_precedences stk nli ib d
    else ulm any_ct brk stk nli d in
  let d :=
    if cur IS Some (TT_ConditionalDirective _) then
      match find (fun p : positive * fctx => c_ty (snd p) IS CT_ConditionalDirective) stk with
      | Some (i, _) => dt_upd i (st_can ib) d
      | None => d
      end
    else d in
  let real := match cur with Some t => negb (is_comment_or_compiler_directive t) | None => false end in
  fold_left
    (fun d (p : positive * fctx) =>
       let c := snd p in
       if is_active_at c nli then
         dt_upd (fst p)
           (fun s =>
              match c_ty c with
              | CT_ConditionalDirective =>
                  if real then
                    let v := s_child s || ib in
                    mkSt (s_broken s) (s_can s && v) (s_child s) (get_or_insert (s_oepl s) v) (s_bar s)
                  else s
              | CT_TypedAssignment | CT_ForLoop | CT_RaiseAt => mkSt (s_broken s || s_child s) (s_can s) (s_child s) (s_oepl s) (s_bar s)
              | CT_AssignLHS =>
                  if lt IS LLT_Assignment then mkSt (s_broken s || s_child s) (s_can s) (s_child s) (s_oepl s) (s_bar s) else s
              | CT_SemicolonList | CT_CommaList | CT_Precedence _ | CT_DirectiveList =>
                  mkSt (s_broken s || s_child s) (s_can s) (s_child s) (if ib then Some true else s_oepl s) (s_bar s)
              | CT_MemberAccess => if ib then st_oepl_set s else s
              | CT_CommaElem | CT_AssignRHS => if ib then st_bar_set s else s
              | _ => s
              end) d
       else d) stk d.

(* ------------------------------------------------------------------ *)
(* decisions, solutions, nodes *)
Inductive wdecision : Set := WBreak (continuations : N) | WContinue.

Inductive solution : Set :=
  | Sol (ws_ind ws_cont : N) (decs : list tdec) (penalty : N) (sol_len : N)
with tdec : Set :=
  | TDec (d : wdecision) (lll : N) (kids : list (nat * solution)).

Definition td_dec (t : tdec) := match t with TDec d _ _ => d end.
Definition td_lll (t : tdec) := match t with TDec _ l _ => l end.
Definition td_kids (t : tdec) := match t with TDec _ _ k => k end.
Definition sol_decs (s : solution) := match s with Sol _ _ ds _ _ => ds end.
Definition sol_pen (s : solution) := match s with Sol _ _ _ p _ => p end.
Definition sol_ws (s : solution) := match s with Sol i c _ _ _ => (i, c) end.
Definition sol_len (s : solution) := match s with Sol _ _ _ _ l => l end.

Definition last_opt' {A} (l : list A) : option A := match rev l with x :: _ => Some x | [] => None end.

(* get_last_child_line_len *)
Definition last_child_line_len (kids : list (nat * solution)) : option N :=
  match last_opt' kids with
  | Some (_, s) => option_map td_lll (last_opt' (sol_decs s))
  | None => None
  end.

Inductive first_decision : Set := FD_Break | FD_Continue (line_length : N) (can_break : bool).

(* ChildLineOption with its ChildWhitespace (indentations, continuations, deindent) *)
Inductive clopt : Set := CO_ContinueAll | CO_BreakAll (ind cont deind : N) | CO_ContinueThenBreak (ind cont deind : N).
Definition clopt_eqb (a b : clopt) : bool :=
  match a, b with
  | CO_ContinueAll, CO_ContinueAll => true
  | CO_BreakAll i c x, CO_BreakAll i' c' x' | CO_ContinueThenBreak i c x, CO_ContinueThenBreak i' c' x' => (i =? i') && (c =? c') && (x =? x')
  | _, _ => false
  end.

(* ChildLineInitialConditions *)
Record ckey := mkKey { k_lll : N; k_line : nat; k_tok : N; k_opt : clopt }.
Definition ckey_eqb (a b : ckey) : bool :=
  (k_lll a =? k_lll b) && (k_tok a =? k_tok b) && Nat.eqb (k_line a) (k_line b) && clopt_eqb (k_opt a) (k_opt b).

Inductive ws_outcome : Set := WS_ok (penalty iterations len : N) | WS_limit (n : N) | WS_none (n : N).
Inductive event : Set :=
  | Ev_S (line : nat) (o : ws_outcome)
  | Ev_D (tok : N) (d : option (bool * N * N)) (lll : N) (first : bool)   (* WD + WL of one token: Some (first, ind, cont) = Break *)
  | Ev_Phase (n : nat).

(* the state threaded through the search: child_line_cache, the hook log (newest first), out-of-fuel flag *)
Record sst := mkSst { ss_cache : list (ckey * list (nat * solution)); ss_log : list event; ss_fuel_err : bool }.
Definition sst_log (e : event) (s : sst) : sst := mkSst (ss_cache s) (e :: ss_log s) (ss_fuel_err s).
Definition sst_err (s : sst) : sst := mkSst (ss_cache s) (ss_log s) true.
Definition sst_cache_add (k : ckey) (v : list (nat * solution)) (s : sst) : sst := mkSst ((k, v) :: ss_cache s) (ss_log s) (ss_fuel_err s).
Fixpoint cache_find (k : ckey) (c : list (ckey * list (nat * solution))) : option (list (nat * solution)) :=
  match c with
  | [] => None
  | (k', v) :: r => if ckey_eqb k k' then Some v else cache_find k r
  end.

(* ------------------------------------------------------------------ *)
(* what the search reads of a token, and of a line *)
Record tokinfo := mkTI { ti_ty : TokenType; ti_sp : N; ti_len : N; ti_ml : option N }.

(* LineChildren *)
Record lchildren := mkLCh { lch_parent_tok : N; lch_ptype : option TokenType; lch_lines : list nat; lch_desc : N }.

(* per token of a line, everything that depends only on the line and the file (not on the partial solution) *)
Record trec := mkTR {
  tr_gidx : N;                          (* global token index *)
  tr_ty : option TokenType;             (* get_token_type_for_line_index *)
  tr_win : option TokenType;            (* get_token_type_window(..).0 / last_real_token_type *)
  tr_fprev : option TokenType;          (* get_prev_token_type_for_line_index *)
  tr_inv : option DecisionRequirement;  (* get_formatting_invariant *)
  tr_stk : cstack;                      (* get_specific_context_stack(line_index) *)
  tr_sp : N; tr_len : N; tr_ml : option N;
  tr_kids : option lchildren }.         (* line_children.get(&(line, token)) *)

Record lview := mkLV { lv_idx : nat; lv_type : LogicalLineType; lv_level : N; lv_top : bool; lv_gtoks : list N;
                       lv_recs : list trec; lv_count : nat }.

Record wsettings := mkWS { w_max : N; w_iter : N; w_bbb : bool; w_indw : N; w_contw : N }.

(* LineWhitespace::len *)
Definition lws_len (W : wsettings) (ws : N * N) : N := fst ws * w_indw W + snd ws * w_contw W.

(* mod.rs: get_decision_penalty *)
Definition break_penalty (lt : LogicalLineType) (fprev : option TokenType) (stk : cstack) (li : N) : N :=
  let routine_type :=
    if fprev IS Some (TT_Op OK_Colon) then
      match find (fun p : positive * fctx => c_ty (snd p) IS (CT_AnonHeader | CT_Brackets _ _)) stk with
      | Some (_, c) => negb (is_brackets (c_ty c))
      | None => lt IS LLT_RoutineHeader
      end
    else false in
  let active := option_map (fun p : positive * fctx => c_ty (snd p)) (find (fun p : positive * fctx => is_active_at (snd p) li) stk) in
  if active IS Some (CT_Brackets BK_Angle _) then 1024
  else if (active IS Some CT_DirectivesLine) && (lt IS LLT_RoutineHeader) then 512
  else if routine_type then 256
  else 3.

Definition decision_penalty (W : wsettings) (lt : LogicalLineType) (r : trec) (li : N) (is_break : bool) (line_length : N) : N :=
  if is_break then break_penalty lt (tr_fprev r) (tr_stk r) li
  else if w_max W <? line_length then 1048576 + (line_length - w_max W) * 3
  else 0.

(* ------------------------------------------------------------------ *)
(* FormattingNode.  n_decs: the decision list, newest first (NodeRef into the decision tree);
   n_rest: the records of the tokens still to decide (= skipn n_nli of the line's records) *)
Record node := mkNode { n_ws : N * N; n_decs : list tdec; n_nli : N; n_rest : list trec; n_data : cdata; n_pen : N }.

(* Ord for FormattingNode: a > b *)
Definition node_gt (a b : node) : bool :=
  (n_pen a <? n_pen b) || ((n_pen a =? n_pen b) && (n_nli b <? n_nli a)).
Definition node_le (a b : node) : bool := negb (node_gt a b).

(* FormattingSolution::from(FormattingNode) *)
Definition solution_of_node (n : node) : solution :=
  Sol (fst (n_ws n)) (snd (n_ws n)) (rev (n_decs n)) (n_pen n) (match n_decs n with t :: _ => td_lll t | [] => 0 end).

(* ------------------------------------------------------------------ *)
(* BinaryHeap<FormattingNode>: a functional array indexed by positive (1-based: position p holds data[p-1];
   the parent of p is p/2, its children 2p and 2p+1) and its length *)
Record heap := mkHeap { h_len : N; h_data : ptree node }.
Definition heap_empty : heap := mkHeap 0 PLeaf.
Definition h_get (p : positive) (h : heap) : option node := pt_get p (h_data h).

(* sift_up(0, pos) with the hole holding `elt`: structural on the 1-based position *)
Fixpoint sift_up (p : positive) (elt : node) (t : ptree node) : ptree node :=
  match p with
  | xH => pt_set xH (Some elt) t
  | xO q | xI q =>
      match pt_get q t with
      | Some par => if node_le elt par then pt_set p (Some elt) t else sift_up q elt (pt_set p (Some par) t)
      | None => pt_set p (Some elt) t
      end
  end.

(* push *)
Definition heap_push (x : node) (h : heap) : heap :=
  let len' := N.succ (h_len h) in
  match len' with
  | Npos p => mkHeap len' (sift_up p x (h_data h))
  | N0 => h
  end.

(* the descent of sift_down_to_bottom: the hole at p moves to its greater child while both children exist,
   then to a lone left child; returns the final hole position.  len = heap length (1-based last position) *)
Fixpoint descend_bottom (fuel : nat) (len : positive) (p : positive) (t : ptree node) : positive * ptree node :=
  match fuel with
  | O => (p, t)
  | S f =>
      let c1 := xO p in let c2 := xI p in
      if (c2 <=? len)%positive then
        match pt_get c1 t, pt_get c2 t with
        | Some a, Some b =>
            let c := if node_le a b then c2 else c1 in
            let v := if node_le a b then b else a in
            descend_bottom f len c (pt_set p (Some v) t)
        | _, _ => (p, t)
        end
      else if (c1 =? len)%positive then
        match pt_get c1 t with Some a => (c1, pt_set p (Some a) t) | None => (p, t) end
      else (p, t)
  end.

(* pop *)
Definition heap_pop (h : heap) : option (node * heap) :=
  match h_len h with
  | N0 => None
  | Npos last =>
      match pt_get last (h_data h) with
      | None => None
      | Some item =>
          let t := pt_set last None (h_data h) in
          match Pos.pred_N last with
          | N0 => Some (item, mkHeap 0 t)
          | Npos len' =>
              match pt_get xH t with
              | None => None
              | Some top =>
                  (* swap(item, data[0]); sift_down_to_bottom(0) *)
                  let (pos, t) := descend_bottom (S (Pos.size_nat len')) len' xH t in
                  Some (top, mkHeap (Npos len') (sift_up pos item t))
              end
          end
      end
  end.

(* sift_down_range(pos, end = len) with the hole holding elt *)
Fixpoint sift_down (fuel : nat) (len : positive) (p : positive) (elt : node) (t : ptree node) : ptree node :=
  match fuel with
  | O => pt_set p (Some elt) t
  | S f =>
      let c1 := xO p in let c2 := xI p in
      if (c2 <=? len)%positive then
        match pt_get c1 t, pt_get c2 t with
        | Some a, Some b =>
            let c := if node_le a b then c2 else c1 in
            let v := if node_le a b then b else a in
            if node_le v elt then pt_set p (Some elt) t
            else sift_down f len c elt (pt_set p (Some v) t)
        | _, _ => pt_set p (Some elt) t
        end
      else if (c1 =? len)%positive then
        match pt_get c1 t with
        | Some a => if node_gt a elt then pt_set c1 (Some elt) (pt_set p (Some a) t) else pt_set p (Some elt) t
        | None => pt_set p (Some elt) t
        end
      else pt_set p (Some elt) t
  end.

(* rebuild: n = len/2 .. 1 (1-based), sift_down each *)
Fixpoint rebuild_from (n : nat) (len : positive) (t : ptree node) : ptree node :=
  match n with
  | O => t
  | S k =>
      let p := Pos.of_nat n in
      let t := match pt_get p t with Some e => sift_down (S (Pos.size_nat len)) len p e t | None => t end in
      rebuild_from k len t
  end.

Fixpoint append_raw (l : list node) (h : heap) : heap :=
  match l with
  | [] => h
  | x :: r => let len' := N.succ (h_len h) in
              append_raw r (mkHeap len' (match len' with Npos p => pt_set p (Some x) (h_data h) | N0 => h_data h end))
  end.

(* sift_up(0, i) for i = start .. len-1 on already stored elements *)
Fixpoint sift_up_each (l : list node) (pos : N) (t : ptree node) : ptree node :=
  match l with
  | [] => t
  | x :: r => let pos' := N.succ pos in
              sift_up_each r pos' (match pos' with Npos p => sift_up p x t | N0 => t end)
  end.

(* Extend::extend = append to the vector, then rebuild_tail(start) *)
Definition heap_extend (l : list node) (h : heap) : heap :=
  match l with
  | [] => h
  | _ =>
      let start := h_len h in
      let h' := append_raw l h in
      let len := h_len h' in
      let tail_len := len - start in
      let better_to_rebuild :=
        if start <? tail_len then true
        else if len <=? 2048 then 2 * len <? tail_len * N.log2 start
        else 2 * len <? tail_len * 11 in
      if better_to_rebuild then
        match len with
        | Npos lp => mkHeap len (rebuild_from (N.to_nat (len / 2)) lp (h_data h'))
        | N0 => h'
        end
      else mkHeap len (sift_up_each l start (h_data h'))
  end.

(* ------------------------------------------------------------------ *)
Section Search.
Variable W : wsettings.
Variable lvs : list lview.        (* one view per logical line, in line order *)
Variable fmain : nat.             (* fuel of the main loop: iteration_max + 3 *)

(* the solver for child lines (the recursion into child lines is closed by `solve` below) *)
Variable child_solve : sst -> lview -> N * N -> first_decision -> sst * option solution.

(* find_continuations_for_token_index: decs newest first (one per token 0..nli-1), toks = tokens[0..nli] *)
Definition find_continuations (tok : N) (toks_rev : list N) (decs : list tdec) : option N :=
  let fix pos (l : list N) (k : nat) : option nat :=
      match l with [] => None | x :: r => if x =? tok then Some k else pos r (S k) end in
  match pos toks_rev O with
  | None => None
  | Some depth =>
      let fix first_break (l : list tdec) : option N :=
          match l with
          | [] => None
          | t :: r => match td_dec t with WBreak c => Some c | WContinue => first_break r end
          end in
      first_break (skipn depth decs)
  end.

(* the child lines of one option, in order; None as soon as one of them has no solution *)
Fixpoint solve_children (st : sst) (opt : clopt) (base : N * N) (deind : N) (kids : list nat) (first : bool) (lll : N)
    (acc : list (nat * solution)) : sst * option (list (nat * solution)) :=
  match kids with
  | [] => (st, Some (rev acc))
  | k :: rest =>
      match nth_error lvs k with
      | None => (st, None)      (* self.lines[child_line] out of range: a panic in the Rust *)
      | Some lv =>
          let ind := fst base + lv_level lv in
          let ws := (ind - deind, snd base) in
          let fd := match opt with
                    | CO_ContinueAll => FD_Continue lll false
                    | CO_BreakAll _ _ _ => FD_Break
                    | CO_ContinueThenBreak _ _ _ => if first then FD_Continue lll true else FD_Break
                    end in
          let (st, r) := child_solve st lv ws fd in
          match r with
          | None => (st, None)
          | Some s =>
              let lll := match last_opt' (sol_decs s) with Some t => td_lll t | None => lll end in
              solve_children st opt base deind rest false lll ((k, s) :: acc)
          end
      end
  end.

Definition first_tok_type (lv : lview) : option TokenType := match lv_recs lv with r :: _ => tr_ty r | [] => None end.
Definition first_inv_must_break (lv : lview) : bool :=
  match lv_recs lv with r :: _ => tr_inv r IS Some DR_MustBreak | [] => false end.

(* find_optimal_child_lines_solution.
   line_idx = line.0; r = the record of the token at next_line_index = tok_li; gtoks = the line's tokens;
   decs = the decisions made so far; d, nli = the context data and next_line_index of the node given as parent_contexts *)
Definition child_lines_solutions (st : sst) (line_idx : nat) (r : trec) (gtoks : list N) (tok_li : N) (ws : N * N) (decs : list tdec)
    (d : cdata) (nli : N) (token_line_length : N) (parent_continuations : N)
    : sst * list (list (nat * solution)) :=
  match tr_kids r with
  | None => (st, [[]])
  | Some lc =>
      let starting_continuations :=
        match find_continuations (lch_parent_tok lc) (rev (firstn (N.to_nat tok_li) gtoks)) decs with Some c => c | None => parent_continuations end in
      let child_starting_ws := (fst ws, snd ws + starting_continuations, 0) in
      let parent_base_ws := (fst ws, snd ws, 1) in
      let parent_indented_ws := (fst ws, snd ws, 0) in
      match match lch_lines lc with k :: _ => nth_error lvs k | [] => None end with
      | None => (st, [[]])
      | Some first_child =>
          let must_break_first_child := first_inv_must_break first_child in
          let first_child_token := first_tok_type first_child in
          let BA (w : N * N * N) := CO_BreakAll (fst (fst w)) (snd (fst w)) (snd w) in
          let CTB (w : N * N * N) := CO_ContinueThenBreak (fst (fst w)) (snd (fst w)) (snd w) in
          let stk := tr_stk r in
          let options : list clopt :=
            match lch_ptype lc with
            | Some (TT_Keyword (KK_Begin | KK_Procedure | KK_Function)) =>
                match glc_o (fun t => t IS (CT_CommaElem | CT_AssignRHS)) stk d nli s_bar with
                | Some false => if lch_desc lc <=? 1 then [CO_ContinueAll] else []
                | _ => [BA child_starting_ws]
                end
            | Some (TT_Op OK_LParen) =>
                if existsb (fun k => match nth_error lvs k with Some lv => lv_type lv IS LLT_CaseHeader | None => false end) (lch_lines lc)
                then [BA child_starting_ws]
                else [BA child_starting_ws; CO_ContinueAll]
            | Some (TT_Keyword KK_Else) =>
                match first_child_token with
                | Some (TT_Keyword KK_If) =>
                    if must_break_first_child then [BA parent_indented_ws] else [CTB parent_base_ws]
                | Some (TT_Keyword KK_Begin) =>
                    if w_bbb W || must_break_first_child then [BA parent_base_ws] else [CTB parent_base_ws]
                | _ => [BA child_starting_ws]
                end
            | Some (TT_Keyword (KK_Then | KK_Do)) =>
                let broken := glc_d (fun t => t IS (CT_ControlFlow | CT_ForLoop)) stk d nli (fun s => s_broken s || s_child s) in
                if first_child_token IS Some (TT_Keyword KK_Begin) then
                  if broken IS Some false then
                    if w_bbb W || must_break_first_child then [BA parent_base_ws]
                    else [BA parent_base_ws; CTB parent_base_ws]
                  else [BA parent_base_ws]
                else [BA parent_indented_ws]
            | Some (TT_Op OK_Colon) =>
                if first_child_token IS Some (TT_Keyword KK_Begin) then
                  if w_bbb W || must_break_first_child then [BA parent_base_ws]
                  else [BA parent_base_ws; CTB parent_base_ws]
                else if (first_child_token IS Some (TT_Op OK_Semicolon)) && (lch_desc lc =? 1) && negb must_break_first_child then [CO_ContinueAll]
                else if lch_desc lc =? 1 then [CO_ContinueAll; BA parent_indented_ws]
                else [BA parent_indented_ws]
            | _ =>
                if glc_d any_ct stk d nli (fun s => s_broken s || s_child s) IS Some true then [BA child_starting_ws] else []
            end in
          fold_left
            (fun (acc : sst * list (list (nat * solution))) (opt : clopt) =>
               let (st, sols) := acc in
               let key := mkKey token_line_length line_idx (tr_gidx r) opt in
               match cache_find key (ss_cache st) with
               | Some s => (st, sols ++ [s])
               | None =>
                   let '(base, deind) := match opt with
                                         | CO_ContinueAll => ((0, 0), 0)
                                         | CO_BreakAll i c x | CO_ContinueThenBreak i c x => ((i, c), x)
                                         end in
                   let (st, res) := solve_children st opt base deind (lch_lines lc) true token_line_length [] in
                   match res with
                   | Some s => (sst_cache_add key s st, sols ++ [s])
                   | None => (st, sols)
                   end
               end) options (st, [])
      end
  end.

(* update_contexts_from_child_solutions *)
Definition update_from_children (stk : cstack) (nli : N) (kids : list (nat * solution)) (d : cdata) : cdata :=
  if existsb (fun ks : nat * solution => existsb (fun t => td_dec t IS WBreak _) (sol_decs (snd ks))) kids then
    fold_left (fun d (p : positive * fctx) => dt_upd (fst p) (fun s => mkSt (s_broken s) (s_can s) true (s_oepl s) (Some true)) d) stk d
  else match kids with
       | [] => d
       | _ => ulm (fun t => t IS CT_ControlFlowBegin) (fun _ s => mkSt (s_broken s) false (s_child s) (s_oepl s) (s_bar s)) stk nli d
       end.

(* get_token_line_length *)
Definition token_line_length' (ws : N * N) (decs : list tdec) (dec : wdecision) (r : trec) : N :=
  match tr_ml r with
  | Some l => l
  | None =>
      match dec with
      | WContinue =>
          let prev := match decs with
                      | t :: _ => match last_child_line_len (td_kids t) with Some l => l | None => td_lll t end
                      | [] => 0
                      end in
          prev + tr_sp r + tr_len r
      | WBreak c => lws_len W (fst ws, snd ws + c) + tr_len r
      end
  end.

Variable lv : lview.              (* the line being solved *)

(* get_potential_solution: the successors of `nd` for one raw decision *)
Definition potential (st : sst) (nd : node) (is_break : bool) : sst * list node :=
  match n_rest nd with
  | [] => (st, [])
  | r :: rest =>
      let li := n_nli nd in
      let stk := tr_stk r in
      let d := update_contexts (lv_type lv) (tr_win r) (tr_ty r) stk li is_break (n_data nd) in
      let cc := get_continuation_count stk d li in
      let dec := if is_break then WBreak cc else WContinue in
      let tll := token_line_length' (n_ws nd) (n_decs nd) dec r in
      let pen := n_pen nd + decision_penalty W (lv_type lv) r li is_break tll in
      let (st, sols) := child_lines_solutions st (lv_idx lv) r (lv_gtoks lv) li (n_ws nd) (n_decs nd) d li tll cc in
      (st, map (fun kids : list (nat * solution) =>
                  let d := update_from_children stk li kids d in
                  let pen := fold_left (fun a (ks : nat * solution) => a + sol_pen (snd ks)) kids pen in
                  mkNode (n_ws nd) (TDec dec tll kids :: n_decs nd) (N.succ li) rest d pen) sols)
  end.

Inductive walk_res : Type := W_push (n : node) | W_extend (l : list node) | W_dead | W_fuel.

Definition best_at (best : list N) (i : nat) : N := nth i best 0.

(* one pass through the body of the 'indiff loop for the node `nd` (indiff = indifference_line):
     WS_stop r      the exploration of this heap node ends (push / extend / dead end);
     WS_forward n i `node = node_successors.remove(0)` inside 'indiff: continue with the single successor;
     WS_restart n   'indiff was left with exactly one successor: the outer loop starts over with it
                    (node_successors cleared, indifference_line = None) *)
Inductive wstep : Type := WS_stop (r : walk_res) | WS_forward (n : node) (indiff : option node) | WS_restart (n : node).

Definition both (st : sst) (ind : node) : sst * list node :=
  let (st, a) := potential st ind true in
  let (st, b) := potential st ind false in
  (st, a ++ b).

Definition finish (succ : list node) : wstep :=
  match succ with
  | [n] => WS_restart n
  | _ => WS_stop (W_extend succ)
  end.

Definition last_line_length_of (nd : node) : N :=
  let last_token_length := match n_decs nd with t :: _ => td_lll t | [] => 0 end in
  let last_child_length := match n_decs nd with t :: _ => match last_child_line_len (td_kids t) with Some l => l | None => 0 end | [] => 0 end in
  N.max last_token_length last_child_length.

Definition walk_step (nd : node) (indiff : option node) (best : list N) (st : sst) : wstep * list N * sst :=
  match (if w_max W <? last_line_length_of nd then indiff else None) with
  | Some ind => let (st, succ) := both st ind in (finish succ, best, st)
  | None =>
      match n_rest nd with
      | [] => (WS_stop (W_push nd), best, st)
      | r :: _ =>
          let req := get_formatting_requirement (lv_type lv) (tr_win r) (tr_ty r) (tr_inv r) (tr_stk r) (n_data nd) (n_nli nd) in
          let after (succ : list node) (indiff' : option node) (st : sst) :=
            match succ with
            | [n] => (WS_forward n indiff', best, st)
            | _ => match indiff' with
                   | Some ind => let (st, more) := both st ind in (finish (succ ++ more), best, st)
                   | None => (finish succ, best, st)
                   end
            end in
          match req with
          | DR_Invalid =>
              match indiff with
              | Some ind => let (st, succ) := both st ind in (finish succ, best, st)
              | None => (WS_stop W_dead, best, st)
              end
          | DR_MustBreak =>
              let (st, sols) := potential st nd true in
              let li := N.to_nat (n_nli nd) in
              let '(best, kept) :=
                fold_left (fun (acc : list N * list node) (n : node) =>
                             if n_pen n <? best_at (fst acc) li then (upd_at li (fun _ => n_pen n) (fst acc), snd acc ++ [n]) else acc)
                          sols (best, []) in
              (finish kept, best, st)
          | DR_MustNotBreak =>
              let (st, succ) := potential st nd false in after succ indiff st
          | DR_Indifferent =>
              let indiff' := match indiff with Some _ => indiff | None => Some nd end in
              let (st, succ) := potential st nd false in after succ indiff' st
          end
      end
  end.

(* the two nested loops of find_optimal_solution's body (successor compression, indifference compression).
   f1 bounds the restarts of the outer loop, f2 the steps of the inner loop since the last restart *)
Fixpoint walk (f1 : nat) : nat -> node -> option node -> list N -> sst -> walk_res * list N * sst :=
  fix inner (f2 : nat) (nd : node) (indiff : option node) (best : list N) (st : sst) {struct f2} : walk_res * list N * sst :=
    match f2 with
    | O => (W_fuel, best, st)
    | S f2' =>
        let '(s, best, st) := walk_step nd indiff best st in
        match s with
        | WS_stop r => (r, best, st)
        | WS_forward n i => inner f2' n i best st
        | WS_restart n =>
            match f1 with
            | O => (W_fuel, best, st)
            | S f1' => walk f1' (S (length (n_rest n))) n None best st
            end
        end
    end.

Inductive sres : Type := SR_ok (s : solution) | SR_none | SR_limit | SR_fuel.

Definition u64_max : N := 18446744073709551615.

(* the main loop of find_optimal_solution *)
Fixpoint main_loop (fuel : nat) (h : heap) (iter : N) (best : list N) (st : sst) : sst * sres :=
  match fuel with
  | O => (sst_err st, SR_fuel)
  | S f =>
      match heap_pop h with
      | None => (sst_log (Ev_S (lv_idx lv) (WS_none iter)) st, SR_none)
      | Some (nd, h) =>
          if w_iter W <? iter then (sst_log (Ev_S (lv_idx lv) (WS_limit iter)) st, SR_limit)
          else
            let iter := iter + 1 in
            match n_rest nd with
            | [] =>
                let s := solution_of_node nd in
                (sst_log (Ev_S (lv_idx lv) (WS_ok (sol_pen s) iter (sol_len s))) st, SR_ok s)
            | _ :: _ =>
                if best_at best (N.to_nat (N.pred (n_nli nd))) <? n_pen nd then main_loop f h iter best st
                else
                  let fuel := S (length (n_rest nd)) in
                  let '(res, best, st) := walk fuel fuel nd None best st in
                  match res with
                  | W_push n => main_loop f (heap_push n h) iter best st
                  | W_extend l => main_loop f (heap_extend l h) iter best st
                  | W_dead => main_loop f h iter best st
                  | W_fuel => (sst_err st, SR_fuel)
                  end
            end
      end
  end.

(* find_optimal_solution *)
Definition find_optimal_solution (st : sst) (ws : N * N) (first : first_decision) : sst * sres :=
  match lv_recs lv with
  | [] => (st, SR_ok (Sol (fst ws) (snd ws) [] 0 0))
  | r :: rest =>
      let inv := tr_inv r in
      let '(is_break, lll, base_can_break) :=
        match first with
        | FD_Break =>
            if inv IS Some DR_MustNotBreak then (false, match tr_ml r with Some l => l | None => tr_sp r + tr_len r end, true)
            else (true, match tr_ml r with Some l => l | None => lws_len W ws + tr_len r end, true)
        | FD_Continue line_length can_break =>
            (false, match tr_ml r with Some l => l | None => line_length + tr_sp r + tr_len r end, can_break)
        end in
      if (inv IS Some DR_MustBreak) && negb is_break then (st, SR_none)
      else
        let dec := if is_break then WBreak 0 else WContinue in
        let d0 := dt_upd xH (fun s => mkSt (s_broken s) base_can_break (s_child s) (s_oepl s) (s_bar s)) PLeaf in
        let pen := decision_penalty W (lv_type lv) r 0 is_break lll in
        (* parent_contexts = init_context_stack.with_data(&node): the node's next_line_index is already 1 *)
        let (st, sols) := child_lines_solutions st (lv_idx lv) r [] 0 ws [TDec dec lll []] d0 1 lll 0 in
        (* both initial nodes share the root of the decision tree: the child solutions written last win *)
        let kids := match last_opt' sols with Some k => k | None => [] end in
        let nd := mkNode ws [TDec dec lll kids] 1 rest d0 pen in
        let h := heap_extend (map (fun _ => nd) sols) heap_empty in
        main_loop fmain h 0 (repeat u64_max (length (lv_recs lv))) st
  end.

End Search.
