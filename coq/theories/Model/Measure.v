(* Model/Measure.v — how the line wrapper MEASURES a physical line
   (core/src/rules/optimising_line_formatter/mod.rs: get_token_line_length, the first-token formulas
   of find_optimal_solution, get_multiline_token_last_line_length; types.rs: LineWhitespace::len),
   and the column the reconstructor actually reaches (Model/Reconstruct.v).
   The search is an oracle; its measured length of every decided token is logged by the hook
   (`WL <token> <last_line_length> <first>`) and compared with `measure_ok` below on every case. *)
From PasfmtVerif Require Export Model.Token Model.Reconstruct Model.WrapApply.

Definition blen (b : bytes) : N := N.of_nat (length b).

(* the column (in bytes) after appending b to a physical line that holds col bytes *)
Fixpoint col_after (col : N) (b : bytes) : N :=
  match b with
  | [] => col
  | x :: r => if x =? 10 then col_after 0 r else col_after (col + 1) r
  end.

(* str::split_inclusive('\n'): the pieces of a text, each with "was ended by LF" *)
Fixpoint lf_pieces (l : bytes) : list (bytes * bool) :=
  match l with
  | [] => []
  | x :: r =>
      if x =? 10 then ([], true) :: lf_pieces r
      else match lf_pieces r with
           | (p, t) :: rest => (x :: p, t) :: rest
           | [] => [([x], false)]
           end
  end.

Definition strip_last_cr (p : bytes) : bytes :=
  match rev p with
  | c :: r => if c =? 13 then rev r else p
  | [] => p
  end.

(* str::lines(): a piece ended by LF loses the LF and then one CR; an unterminated last piece is kept as it is *)
Definition line_of_piece (pt : bytes * bool) : bytes := if snd pt then strip_last_cr (fst pt) else fst pt.

(* `content.lines().skip(1).last().map(|l| l.len())` *)
Definition ml_last_len (c : bytes) : option N :=
  match lf_pieces c with
  | [] => None
  | _ :: rest => match last_opt rest with Some pt => Some (blen (line_of_piece pt)) | None => None end
  end.

(* the token kinds whose last line is measured *)
Definition is_ml_measured (ty : TokenType) : bool :=
  match ty with
  | TT_TextLiteral TK_MultiLine => true
  | TT_Comment CoK_MultilineBlock => true
  | _ => false
  end.

(* get_multiline_token_last_line_length *)
Definition ml_measure (tok : token) : option N :=
  if is_ml_measured (t_ty tok) then ml_last_len (t_content tok) else None.

(* LineWhitespace::len *)
Definition lw_len (rs : rsettings) (ind cont : N) : N := ind * blen (rs_indent rs) + cont * blen (rs_cont rs).

(* get_token_line_length, and (after the repair of F32) the three first-token formulas of
   find_optimal_solution: prev = the length of the physical line so far (for the first token of a
   child line that continues its parent's line: the parent's line_length) *)
Definition token_line_length (rs : rsettings) (prev : N) (d : decision) (tok : token) (sp : N) : N :=
  match ml_measure tok with
  | Some l => l
  | None =>
      match d with
      | DContinue => prev + sp + blen (t_content tok)
      | DBreak _ ind cont => lw_len rs ind cont + blen (t_content tok)
      end
  end.

(* what the log may say for one decision: a first token that continues is measured from its
   parent's line length, or from 0 when a top-level line must not break before its first token
   (`(Some(MustNotBreak), FirstDecision::Break)`); every other token has one value *)
Definition measure_ok (rs : rsettings) (prev : N) (d : decision) (first : bool) (tok : token) (sp : N) (logged : N) : bool :=
  (logged =? token_line_length rs prev d tok sp)
  || (first && match d with DContinue => logged =? token_line_length rs 0 d tok sp | _ => false end).

(* --- what the reconstructor reaches ------------------------------------------------------- *)

(* column after one token of the final vector, given the column before it *)
Definition rendered_col (rs : rsettings) (must_break : bool) (col : N) (p : ftoken) : N :=
  col_after col (emit_ws rs must_break p ++ t_content (fst p)).

Fixpoint rendered_cols (rs : rsettings) (must_break : bool) (col : N) (l : list ftoken) : list N :=
  match l with
  | [] => []
  | p :: r => let c := rendered_col rs must_break col p in
              c :: rendered_cols rs (is_sl_comment (t_ty (fst p))) c r
  end.

(* the same recurrence on the counters alone: what the wrapper's measure amounts to when its
   decisions are the ones recorded in the final counters *)
Definition counter_col (rs : rsettings) (col : N) (p : ftoken) : N :=
  let (tok, f) := p in
  match ml_measure tok with
  | Some l => l
  | None => if 0 <? f_nl f then lw_len rs (f_ind f) (f_cont f) + blen (t_content tok)
            else col + f_sp f + blen (t_content tok)
  end.

Fixpoint counter_cols (rs : rsettings) (col : N) (l : list ftoken) : list N :=
  match l with
  | [] => []
  | p :: r => let c := counter_col rs col p in c :: counter_cols rs c r
  end.

(* settings whose line ending ends in LF and whose indentation strings hold no LF (every value of
   ReconstructionSettings::new) *)
Definition no_lf (b : bytes) : bool := forallb (fun x => negb (x =? 10)) b.
Definition ends_lf (b : bytes) : bool := match rev b with x :: _ => x =? 10 | [] => false end.
Definition rs_measurable (rs : rsettings) : bool := ends_lf (rs_newline rs) && no_lf (rs_indent rs) && no_lf (rs_cont rs).

(* a token whose rendering the counters describe: decided (not ignored), a line start without
   spaces or a continuation without indentation, content without LF unless it is a measured
   multi-line kind whose text does not end in LF or in CR *)
Definition last_not_term (c : bytes) : bool := match rev c with x :: _ => negb (x =? 10) && negb (x =? 13) | [] => true end.
Definition tok_measurable (p : ftoken) : bool :=
  let (tok, f) := p in
  negb (f_ignored f)
  && (if 0 <? f_nl f then f_sp f =? 0 else (f_ind f =? 0) && (f_cont f =? 0))
  && (if is_ml_measured (t_ty tok) then last_not_term (t_content tok) else no_lf (t_content tok)).

(* no safety-net break is needed: a token after a `//` comment starts a line (what plan_respects
   demands of the wrapper) *)
Fixpoint breaks_after_sl (prev_sl : bool) (l : list ftoken) : bool :=
  match l with
  | [] => true
  | p :: r => (if prev_sl then (0 <? f_nl (snd p)) || is_eof (t_ty (fst p)) else true)
              && breaks_after_sl (is_sl_comment (t_ty (fst p))) r
  end.
