(* Model/WrapContexts.v — core/src/rules/optimising_line_formatter/contexts.rs, the static part:
   ContextType, FormattingContext, LineFormattingContextsBuilder and LineFormattingContexts::new
   (the context tree of one logical line, built from the line type and the token types of its tokens),
   finalise, write_context_tree, get_specific_context_stack; and mod.rs: get_operator_precedence,
   is_binary; contexts.rs: KeywordKind::is_directive, TokenType::is_comment_or_compiler_directive.

   Representation.  The Rust builder keeps all contexts in a ParentPointerTree and a `current_context`
   pointer; every mutation it performs before `finalise` touches the current context or one of its
   ancestors (pop: ending_token of the current context; last_context_matching_mut / last_context_mut:
   a context on the parent chain; retain / fluent / push_utility: set membership of such a context).
   The model therefore keeps the parent chain as an explicit stack of records (top first, the root
   last), moves a record to `b_done` when it is popped, and carries the two NodeRefSets
   (contexts_to_remove, member_access_contexts) as two booleans in each record.  After the token loop
   the records are sorted by index: that list is the Rust tree in creation order. *)
From PasfmtVerif Require Export Model.Token Model.Requirements.

(* `bid` keeps the extraction from commuting the surrounding `if` into the branches of the pattern test
   (its generalised iota rule would duplicate the rest of an if-chain into every constructor case) *)
Definition bid (b : bool) : bool := b.
Notation "x 'IS' p" := (bid (match x with p => true | _ => false end)) (at level 70, p pattern at level 200, only parsing).

Inductive BracketKind : Set := BK_Round | BK_Square | BK_Angle.
Inductive BracketStyle : Set := BS_Invisible | BS_Expanded | BS_BreakClose | BS_ContClose.

Inductive ContextType : Set :=
  | CT_Base | CT_InlineDeclaration | CT_Raise | CT_RaiseAt | CT_PropDec | CT_RoutineHeader
  | CT_DirectivesLine | CT_ForLoop
  | CT_Brackets (k : BracketKind) (s : BracketStyle)
  | CT_CommaList | CT_CommaElem | CT_SemicolonList | CT_SemicolonElem | CT_DirectiveList | CT_Directive
  | CT_ControlFlow | CT_Assignment | CT_TypedAssignment
  | CT_Type | CT_Precedence (p : nat) | CT_AssignLHS | CT_AssignRHS | CT_ControlFlowBegin
  | CT_ConditionalDirective | CT_MemberAccess | CT_Subject | CT_GuardClause | CT_AnonHeader.

Definition bk_eqb (a b : BracketKind) : bool :=
  match a, b with BK_Round, BK_Round | BK_Square, BK_Square | BK_Angle, BK_Angle => true | _, _ => false end.
Definition bs_eqb (a b : BracketStyle) : bool :=
  match a, b with
  | BS_Invisible, BS_Invisible | BS_Expanded, BS_Expanded | BS_BreakClose, BS_BreakClose | BS_ContClose, BS_ContClose => true
  | _, _ => false
  end.
Definition ct_eqb (a b : ContextType) : bool :=
  match a, b with
  | CT_Base, CT_Base | CT_InlineDeclaration, CT_InlineDeclaration | CT_Raise, CT_Raise | CT_RaiseAt, CT_RaiseAt
  | CT_PropDec, CT_PropDec | CT_RoutineHeader, CT_RoutineHeader | CT_DirectivesLine, CT_DirectivesLine
  | CT_ForLoop, CT_ForLoop | CT_CommaList, CT_CommaList | CT_CommaElem, CT_CommaElem
  | CT_SemicolonList, CT_SemicolonList | CT_SemicolonElem, CT_SemicolonElem | CT_DirectiveList, CT_DirectiveList
  | CT_Directive, CT_Directive | CT_ControlFlow, CT_ControlFlow | CT_Assignment, CT_Assignment
  | CT_TypedAssignment, CT_TypedAssignment | CT_Type, CT_Type | CT_AssignLHS, CT_AssignLHS | CT_AssignRHS, CT_AssignRHS
  | CT_ControlFlowBegin, CT_ControlFlowBegin | CT_ConditionalDirective, CT_ConditionalDirective
  | CT_MemberAccess, CT_MemberAccess | CT_Subject, CT_Subject | CT_GuardClause, CT_GuardClause
  | CT_AnonHeader, CT_AnonHeader => true
  | CT_Brackets k s, CT_Brackets k' s' => bk_eqb k k' && bs_eqb s s'
  | CT_Precedence p, CT_Precedence q => Nat.eqb p q
  | _, _ => false
  end.

(* contexts.rs: KeywordKind::is_directive *)
Definition kk_is_directive (k : KeywordKind) : bool :=
  KeywordKind_is_method_directive k || KeywordKind_is_property_directive k || (k IS (KK_Index | KK_Name)).

(* contexts.rs: TokenType::is_comment_or_compiler_directive *)
Definition is_comment_or_compiler_directive (t : TokenType) : bool := t IS (TT_Comment _ | TT_CompilerDirective).

(* mod.rs: get_operator_precedence *)
Definition get_operator_precedence (t : TokenType) : option nat :=
  match t with
  | TT_Op OK_Dot => Some 0%nat
  | TT_Op OK_AddressOf | TT_Keyword KK_Not => Some 1%nat
  | TT_Op (OK_Star | OK_Slash) | TT_Keyword (KK_Div | KK_Mod | KK_And | KK_Shl | KK_Shr | KK_As) => Some 2%nat
  | TT_Op (OK_Plus | OK_Minus) | TT_Keyword (KK_Or | KK_Xor) => Some 3%nat
  | TT_Op (OK_Equal EK_Comp | OK_NotEqual | OK_LessThan ChK_Comp | OK_GreaterThan ChK_Comp | OK_LessEqual | OK_GreaterEqual)
  | TT_Keyword (KK_In IK_Op | KK_Is) => Some 4%nat
  | TT_Keyword (KK_In IK_Import) => Some 4%nat
  | TT_Op OK_DotDot => Some 5%nat
  | _ => None
  end.

(* mod.rs: is_binary *)
Definition is_binary (t : TokenType) (prev : option TokenType) : bool :=
  if negb (t IS (TT_Op (OK_Plus | OK_Minus | OK_AddressOf) | TT_Keyword KK_Not)) then true
  else if t IS (TT_Op OK_AddressOf | TT_Keyword KK_Not) then false
  else (* t is + or - *)
    if prev IS Some (TT_Op (OK_RBrack | OK_RParen | OK_GreaterThan ChK_Generic) | TT_Keyword (KK_Inherited | KK_Nil)) then true
    else if prev IS (None | Some (TT_Op _ | TT_Keyword _ | TT_Comment _ | TT_CompilerDirective | TT_ConditionalDirective _)) then false
    else true.

Definition is_binary_op (t : TokenType) (prev : option TokenType) : bool :=
  match get_operator_precedence t with Some _ => is_binary t prev | None => false end.

(* ------------------------------------------------------------------ *)
(* FormattingContext *)
Record fctx := mkCtx { c_ty : ContextType; c_delta : N; c_start : N; c_end : option N }.

(* FormattingContext::is_active_at_token *)
Definition is_active_at (c : fctx) (li : N) : bool :=
  negb (c_start c =? li) && match c_end c with None => true | Some e => li <=? e end.

(* a context stack at one token: (index into the line's context table + 1, context), top first.
   The index is kept as a positive (1-based) because the per-solution context data is a functional array *)
Definition cstack := list (positive * fctx).

(* ------------------------------------------------------------------ *)
(* the builder *)
Record bctx := mkB { bc_idx : N; bc_ty : ContextType; bc_delta : N; bc_start : N; bc_end : option N;
                     bc_parent : option N; bc_rm : bool; bc_ma : bool }.

Definition bc_set_ty (t : ContextType) (c : bctx) := mkB (bc_idx c) t (bc_delta c) (bc_start c) (bc_end c) (bc_parent c) (bc_rm c) (bc_ma c).
Definition bc_set_end (e : option N) (c : bctx) := mkB (bc_idx c) (bc_ty c) (bc_delta c) (bc_start c) e (bc_parent c) (bc_rm c) (bc_ma c).
Definition bc_set_rm (r : bool) (c : bctx) := mkB (bc_idx c) (bc_ty c) (bc_delta c) (bc_start c) (bc_end c) (bc_parent c) r (bc_ma c).
Definition bc_set_ma (m : bool) (c : bctx) := mkB (bc_idx c) (bc_ty c) (bc_delta c) (bc_start c) (bc_end c) (bc_parent c) (bc_rm c) m.

(* b_stack: the parent chain of current_context, top first, root last (never empty);
   b_upd: update_indices, newest first, each with the indices of the chain at that moment *)
Record builder := mkBld { b_stack : list bctx; b_done : list bctx; b_next : N; b_upd : list (N * list N); b_li : N }.

Definition root_bctx : bctx := mkB 0 CT_Base 1 0 None None false false.
Definition new_builder : builder := mkBld [root_bctx] [] 1 [] 0.

Definition b_top (b : builder) : bctx := hd root_bctx (b_stack b).
Definition b_top_ty (b : builder) : ContextType := bc_ty (b_top b).
Definition b_set_stack (s : list bctx) (b : builder) := mkBld s (b_done b) (b_next b) (b_upd b) (b_li b).
Definition b_map_top (f : bctx -> bctx) (b : builder) : builder :=
  match b_stack b with [] => b | c :: r => b_set_stack (f c :: r) b end.

(* apply f to the first stack element whose type satisfies flt *)
Fixpoint map_first (flt : ContextType -> bool) (f : bctx -> bctx) (s : list bctx) : list bctx :=
  match s with
  | [] => []
  | c :: r => if flt (bc_ty c) then f c :: r else c :: map_first flt f r
  end.

(* add_context; utility = push_utility (the new context is put into contexts_to_remove) *)
Definition b_add (utility : bool) (ty : ContextType) (delta : N) (b : builder) : builder :=
  let c := mkB (b_next b) ty delta (b_li b) None (Some (bc_idx (b_top b))) utility (ct_eqb ty (CT_Precedence 0)) in
  mkBld (c :: b_stack b) (b_done b) (N.succ (b_next b)) (b_upd b) (b_li b).
Definition b_push (ty : ContextType) := b_add false ty 1.
Definition b_push_d (ty : ContextType) (d : N) := b_add false ty d.
Definition b_push_u (ty : ContextType) := b_add true ty 1.
Definition b_push_ud (ty : ContextType) (d : N) := b_add true ty d.

(* push_operator_precedences(start): Precedence(start-1) ... Precedence(0), all utility *)
Fixpoint b_push_precs (start : nat) (b : builder) : builder :=
  match start with O => b | S k => b_push_precs k (b_push_u (CT_Precedence k) b) end.
Definition b_push_expression := b_push_precs 6.
Definition b_push_operators (b : builder) : builder :=
  b_push_precs (match b_top_ty b with CT_Precedence p => p | _ => 6%nat end) b.

(* pop *)
Definition b_pop (b : builder) : builder :=
  match b_stack b with
  | [] => b
  | c :: r =>
      let c' := match bc_end c with None => bc_set_end (Some (N.pred (b_li b))) c | Some _ => c end in
      match r with
      | [] => b_set_stack [c'] b
      | _ :: _ => mkBld r (c' :: b_done b) (b_next b) (b_upd b) (b_li b)
      end
  end.
Fixpoint b_pops (n : nat) (b : builder) : builder := match n with O => b | S k => b_pops k (b_pop b) end.

Fixpoint find_depth (flt : ContextType -> bool) (s : list bctx) : option nat :=
  match s with
  | [] => None
  | c :: r => if flt (bc_ty c) then Some O else option_map S (find_depth flt r)
  end.

(* pop_until: returns the builder and the type on top afterwards *)
Definition b_pop_until (flt : ContextType -> bool) (b : builder) : builder :=
  match find_depth flt (b_stack b) with Some d => b_pops d b | None => b end.
Definition b_retain_current := b_map_top (bc_set_rm false).
Definition b_retain_first (flt : ContextType -> bool) (b : builder) : builder := b_set_stack (map_first flt (bc_set_rm false) (b_stack b)) b.
Definition b_pop_until_and_retain (flt : ContextType -> bool) (b : builder) : builder :=
  match find_depth flt (b_stack b) with Some d => b_retain_current (b_pops d b) | None => b end.
Definition b_pop_until_after (flt : ContextType -> bool) (b : builder) : builder * bool :=
  match find_depth flt (b_stack b) with Some d => (b_pops (S d) b, true) | None => (b, false) end.

(* next_token *)
Definition b_next_token (b : builder) : builder :=
  let b := if b_top_ty b IS (CT_Precedence _ | CT_TypedAssignment | CT_Assignment | CT_AssignLHS | CT_AssignRHS | CT_CommaList | CT_SemicolonList)
           then b else b_retain_current b in
  let cur := bc_idx (b_top b) in
  let same := match b_upd b with (_, i :: _) :: _ => i =? cur | _ => false end in
  let upd := if same then b_upd b else (b_li b, map bc_idx (b_stack b)) :: b_upd b in
  mkBld (b_stack b) (b_done b) (b_next b) upd (N.succ (b_li b)).

Definition is_brackets (t : ContextType) : bool := t IS CT_Brackets _ _.

(* the contexts pushed for the PREVIOUS token (first block of the loop body) *)
Definition b_prev_pushes (lt : LogicalLineType) (pp : option TokenType) (prev prev_sem cur : TokenType) (b : builder) : builder :=
  let last := b_top_ty b in
  let b :=
    if (prev IS TT_Op (OK_LParen | OK_LBrack | OK_LessThan ChK_Generic)) || ((prev, last) IS (TT_Op OK_Semicolon, CT_SemicolonList)) then
      let b := if last IS CT_SemicolonList then b else b_push_ud CT_SemicolonList 0 b in
      b_push_expression (b_push_u CT_AssignLHS (b_push_u CT_Assignment (b_push_u CT_CommaElem (b_push_ud CT_CommaList 0
        (b_push_u CT_AssignLHS (b_push_u CT_Assignment (b_push_u CT_SemicolonElem b)))))))
    else if (prev, last) IS (TT_Op OK_Comma, CT_CommaList) then
      b_push_expression (b_push_u CT_AssignLHS (b_push_u CT_Assignment (b_push CT_CommaElem b)))
    else b in
  match prev_sem with
  | TT_Keyword KK_Of => b_push_expression (b_push CT_Subject b)
  | _ =>
  if (prev_sem IS TT_Keyword KK_Type) && negb (cur IS TT_Keyword KK_Of) then b_push_expression (b_push CT_Subject b)
  else if prev_sem IS TT_Keyword (KK_Function | KK_Procedure | KK_Destructor | KK_Constructor) then b_push_expression b
  else if prev_sem IS TT_Keyword KK_For then
    (if lt IS LLT_ForLoop then b_push CT_Subject b else b_push_expression b)
  else if prev_sem IS TT_Keyword (KK_In IK_ForLoop | KK_To | KK_Downto) then b_push_expression b
  else if prev_sem IS TT_Keyword (KK_If | KK_While | KK_On | KK_Until | KK_Case) then b_push_expression (b_push CT_GuardClause b)
  else if prev_sem IS TT_Keyword KK_With then
    b_push_expression (b_push_u CT_CommaElem (b_push_ud CT_CommaList 0 (b_push CT_GuardClause b)))
  else if prev_sem IS TT_Keyword (KK_Var DK_Inline | KK_Const DK_Inline) then b_push CT_InlineDeclaration (b_push_u CT_Assignment b)
  else if prev_sem IS TT_Keyword KK_Raise then b_push_expression b
  else if prev_sem IS TT_Keyword KK_At then b_push_expression b
  else if prev_sem IS TT_Op (OK_Equal EK_Decl | OK_Assign) then b_push_expression (b_push CT_AssignRHS b)
  else if (prev_sem IS TT_Keyword KK_Abstract) && (pp IS Some (TT_Keyword KK_Class)) then b
  else if match prev_sem with TT_Keyword kk => kk_is_directive kk | _ => false end then b_push_expression b
  else if (prev_sem IS TT_Op OK_Colon) && negb (lt IS LLT_CaseArm) then
    let in_angle := match find (fun c => is_brackets (bc_ty c)) (b_stack b) with
                    | Some c => bc_ty c IS CT_Brackets BK_Angle _
                    | None => false
                    end in
    b_push_expression (if in_angle then b_push_u CT_CommaElem (b_push_ud CT_CommaList 0 b) else b_push CT_Type b)
  else if match prev_sem with TT_ConditionalDirective k => ConditionalDirectiveKind_is_if k | _ => false end then b_push_operators b
  else if match prev_sem with TT_ConditionalDirective k => ConditionalDirectiveKind_is_else k | _ => false end then b_push_operators b
  else if is_binary_op prev_sem pp then b_push_operators b
  else b
  end.

Definition opt_ct_eqb (a b : option ContextType) : bool :=
  match a, b with Some x, Some y => ct_eqb x y | None, None => true | _, _ => false end.

(* the contexts that apply to the CURRENT token (second block) *)
Definition b_cur_step (lt : LogicalLineType) (ntoks : N) (prev : option TokenType) (cur : TokenType) (next : option TokenType)
    (b : builder) : builder :=
  let last := b_top_ty b in
  let set_end_prev (c : bctx) := bc_set_end (Some (N.pred (b_li b))) c in
  match cur with
  | TT_Op (OK_LParen | OK_LBrack | OK_LessThan ChK_Generic) =>
      let kind := match cur with TT_Op OK_LBrack => BK_Square | TT_Op (OK_LessThan ChK_Generic) => BK_Angle | _ => BK_Round end in
      let sq := kind IS BK_Square in
      let sd : BracketStyle * N :=
        if prev IS Some (TT_Identifier | TT_Op (OK_GreaterThan ChK_Generic)) then (BS_BreakClose, 1)
        else if prev IS Some (TT_Op OK_Colon) then (BS_BreakClose, 1)
        else if prev IS Some (TT_Op (OK_Equal EK_Decl) | TT_Op OK_Semicolon
                              | TT_Keyword (KK_Function | KK_Procedure | KK_Sealed | KK_Abstract | KK_Class | KK_Interface | KK_Helper | KK_Of))
             then (BS_BreakClose, 1)
        else if prev IS Some (TT_Op (OK_LParen | OK_Comma)) then (if sq then (BS_BreakClose, 1) else (BS_Expanded, 1))
        else if sq then (BS_BreakClose, 1)
        else (BS_Invisible, 0) in
      b_push_d (CT_Brackets kind (fst sd)) (snd sd) b
  | TT_Op (OK_GreaterThan ChK_Generic | OK_RParen | OK_RBrack) => b_pop_until is_brackets b
  | TT_Op OK_Semicolon =>
      let b := b_pop_until (fun t => t IS CT_DirectiveList) b in
      if (N.succ (b_li b) =? ntoks) && (b_top_ty b IS CT_DirectiveList) then
        b_pop_until (fun t => t IS (CT_Base | CT_RoutineHeader | CT_DirectivesLine)) b
      else b_retain_current (b_pop_until (fun t => t IS (CT_DirectiveList | CT_SemicolonList | CT_Base | CT_RoutineHeader)) b)
  | TT_Op OK_Comma =>
      b_retain_current (b_pop_until (fun t => t IS CT_CommaList) (b_retain_first (fun t => t IS CT_CommaElem) b))
  | TT_Op OK_Colon =>
      let b := b_pop_until (fun t => t IS (CT_CommaList | CT_SemicolonElem | CT_AnonHeader)) b in
      let b := match b_top_ty b with
               | CT_CommaList => b_retain_first (fun t => t IS CT_SemicolonElem) (b_pop b)
               | CT_SemicolonElem => b_retain_current b
               | _ => b
               end in
      b_set_stack (map_first (fun t => t IS (CT_Assignment | CT_TypedAssignment)) (bc_set_ty CT_TypedAssignment) (b_stack b)) b
  | TT_Op (OK_Equal EK_Decl | OK_Assign) =>
      let b := b_retain_first (fun t => t IS (CT_CommaElem | CT_SemicolonElem)) b in
      let b := b_pop_until (fun t => t IS (CT_CommaElem | CT_SemicolonElem | CT_Assignment | CT_TypedAssignment | CT_AssignLHS)) b in
      match b_top_ty b with
      | CT_TypedAssignment | CT_Assignment => b_map_top set_end_prev (b_retain_current b)
      | CT_AssignLHS =>
          let b := b_pop (b_retain_current b) in
          let b := if b_top_ty b IS (CT_TypedAssignment | CT_Assignment) then b_map_top set_end_prev b else b in
          b_retain_current b
      | _ => b
      end
  | TT_Keyword (KK_If | KK_While | KK_With | KK_On) => b_push CT_ControlFlow (b_push_ud CT_ControlFlowBegin 0 b)
  | TT_Keyword KK_Else => b_pop_until (fun t => t IS CT_ControlFlowBegin) b
  | TT_Keyword (KK_Case | KK_Until) => b_push CT_ControlFlow b
  | TT_Keyword KK_For =>
      if lt IS LLT_ForLoop then b_push CT_ForLoop (b_push_ud CT_ControlFlowBegin 0 b) else b_push CT_Subject b
  | TT_Keyword (KK_In IK_ForLoop | KK_To | KK_Downto) => b_push CT_Subject (b_pop_until (fun t => t IS CT_ForLoop) b)
  | TT_Keyword KK_Raise => b_push CT_Raise b
  | TT_Keyword KK_At => b_push CT_Subject (b_map_top (bc_set_ty CT_RaiseAt) (b_pop_until (fun t => t IS CT_Raise) b))
  | TT_Op OK_Dot =>
      if last IS CT_Precedence O then
        let b := b_retain_current b in
        if prev IS Some (TT_Op (OK_RParen | OK_RBrack)) then b_map_top (bc_set_ma false) b else b
      else b
  | _ =>
  if is_binary_op cur prev then
    match get_operator_precedence cur with
    | Some p => b_pop_until_and_retain (fun t => ct_eqb t (CT_Precedence p)) b
    | None => b
    end
  else if (cur IS TT_Keyword KK_Of) && (next IS Some (TT_Keyword KK_Object)) then fst (b_pop_until_after (fun t => t IS CT_AnonHeader) b)
  else if cur IS TT_Keyword (KK_Then | KK_Do | KK_Of) then b_pop_until (fun t => t IS (CT_ControlFlow | CT_ForLoop)) b
  else if (cur IS TT_Keyword (KK_Function | KK_Procedure)) && negb (last IS CT_RoutineHeader) then b_push CT_AnonHeader b
  else if cur IS TT_Keyword KK_Begin then
    let b := b_pop_until (fun t => t IS CT_CommaElem) b in
    let b := if ct_eqb (b_top_ty b) last then b_pop_until (fun t => t IS CT_ControlFlowBegin) b else b_retain_current b in
    fst (b_pop_until_after (fun t => t IS CT_AnonHeader) b)
  else if (cur IS TT_Keyword KK_Abstract) && (prev IS Some (TT_Keyword KK_Class)) then b
  else if match cur with TT_Keyword kk => kk_is_directive kk | _ => false end then
    let b := b_pop_until (fun t => t IS CT_DirectiveList) b in
    let b := if b_top_ty b IS CT_DirectiveList then b
             else let (b, changed) := b_pop_until_after (fun t => t IS (CT_PropDec | CT_RoutineHeader)) b in
                  b_push_d CT_DirectiveList 0 (if changed then b_retain_current b else b) in
    b_push CT_Directive b
  else match cur with
       | TT_ConditionalDirective k =>
           if ConditionalDirectiveKind_is_if k then b_push_d CT_ConditionalDirective 0 b
           else if ConditionalDirectiveKind_is_else k then b_pop_until (fun t => t IS CT_ConditionalDirective) b
           else if ConditionalDirectiveKind_is_end k then b_pop_until (fun t => t IS CT_ConditionalDirective) b
           else b
       | _ => b
       end
  end.

(* "After the current token, some contexts needs to be popped" *)
Definition b_after (cur : TokenType) (b : builder) : builder :=
  match cur with
  | TT_Op (OK_GreaterThan ChK_Generic) => fst (b_pop_until_after (fun t => t IS CT_Brackets BK_Angle _) b)
  | TT_Op OK_RParen => fst (b_pop_until_after (fun t => t IS CT_Brackets BK_Round _) b)
  | TT_Op OK_RBrack => fst (b_pop_until_after (fun t => t IS CT_Brackets BK_Square _) b)
  | TT_ConditionalDirective k =>
      if ConditionalDirectiveKind_is_end k then fst (b_pop_until_after (fun t => t IS CT_ConditionalDirective) b) else b
  | _ => b
  end.

(* the token loop of LineFormattingContexts::new: tys = the types of the line's tokens *)
Fixpoint b_loop (lt : LogicalLineType) (ntoks : N) (tys : list TokenType) (pp prev prev_sem : option TokenType) (b : builder) : builder :=
  match tys with
  | [] => b
  | cur :: rest =>
      let next := match rest with n :: _ => Some n | [] => None end in
      let b := if is_comment_or_compiler_directive cur then b
               else match prev, prev_sem with
                    | Some p, Some ps => b_prev_pushes lt pp p ps cur b
                    | _, _ => b
                    end in
      let b := b_cur_step lt ntoks prev cur next b in
      let b := b_next_token b in
      let b := b_after cur b in
      let cd := TokenType_is_comment_or_directive cur in
      b_loop lt ntoks rest (if cd then pp else prev) (if cd then prev else Some cur)
             (if is_comment_or_compiler_directive cur then prev_sem else Some cur) b
  end.

(* the contexts pushed for the line type before the loop *)
Definition b_init (lt : LogicalLineType) (b : builder) : builder :=
  match lt with
  | LLT_CaseArm => b_push_expression (b_push_u CT_CommaElem (b_push_ud CT_CommaList 0 (b_push_ud CT_ControlFlowBegin 0 b)))
  | LLT_Declaration => b_push_ud CT_CommaList 0 (b_push_u CT_AssignLHS (b_push_u CT_Assignment b))
  | LLT_ImportClause | LLT_ExportClause => b_push_expression (b_push CT_CommaElem (b_push_d CT_CommaList 0 b))
  | LLT_RoutineHeader => b_push CT_RoutineHeader (b_push_u CT_DirectivesLine b)
  | LLT_PropertyDeclaration => b_push CT_PropDec (b_push_u CT_DirectivesLine b)
  | LLT_Assignment => b_push_expression (b_push CT_AssignLHS (b_push CT_Assignment b))
  | LLT_ForLoop => b
  | _ => b_push_expression (b_push_u CT_AssignLHS (b_push_u CT_Assignment b))
  end.

(* ------------------------------------------------------------------ *)
(* the tree in creation order *)
Fixpoint insert_by_idx (c : bctx) (l : list bctx) : list bctx :=
  match l with
  | [] => [c]
  | x :: r => if bc_idx c <? bc_idx x then c :: l else x :: insert_by_idx c r
  end.
(* b_done is in pop order; contexts are mostly popped in reverse creation order, so inserting from the
   front of b_done into an ascending list is cheap *)
Definition sort_by_idx (l : list bctx) : list bctx := fold_left (fun acc c => insert_by_idx c acc) l [].

(* finalise, step 1 and 2 *)
Definition fin_ma (c : bctx) : bctx := if bc_ma c && (bc_ty c IS CT_Precedence O) then bc_set_ty CT_MemberAccess c else c.
Definition fin_rm (c : bctx) : bctx :=
  let useless := match bc_end c with
                 | Some e => e =? bc_start c
                 | None => bc_ty c IS (CT_CommaList | CT_Assignment)
                 end in
  if useless then bc_set_rm true c else c.

(* finalise, step 3.  The tree in creation order is a pre-order traversal (a context only gets descendants
   while it is on the parent chain), so the ancestors of the context being visited are kept as a chain
   (parent first) of already finalised contexts. *)
Fixpoint drop_to (p : N) (chain : list bctx) : list bctx :=
  match chain with
  | [] => []
  | c :: r => if bc_idx c =? p then chain else drop_to p r
  end.

(* in_guard_clause: walk the ancestors, stop at the first Brackets *)
Fixpoint anc_guard (chain : list bctx) : bool :=
  match chain with
  | [] => false
  | c :: r => if is_brackets (bc_ty c) then false
              else if bc_ty c IS (CT_GuardClause | CT_Raise | CT_RaiseAt | CT_ForLoop) then true
              else anc_guard r
  end.

Definition fin_bracket (chain : list bctx) (c : bctx) : bctx :=
  let newty := match bc_ty c with
               | CT_Brackets kind BS_Expanded => Some (CT_Brackets kind BS_Invisible)
               | CT_Brackets kind BS_BreakClose => Some (CT_Brackets kind BS_ContClose)
               | _ => None
               end in
  match newty with
  | None => c
  | Some t =>
      let a := find (fun x => negb (bc_rm x) && negb (bc_ty x IS (CT_MemberAccess | CT_AssignRHS))) chain in
      let in_prec := match a with Some x => bc_ty x IS (CT_Precedence _ | CT_Brackets _ BS_Invisible) | None => false end in
      if in_prec || anc_guard chain then bc_set_ty t c else c
  end.

Fixpoint fin_brackets (l : list bctx) (chain : list bctx) (acc : list bctx) : list bctx :=
  match l with
  | [] => rev acc
  | c :: r =>
      let chain := match bc_parent c with Some p => drop_to p chain | None => [] end in
      let c' := fin_bracket chain c in
      fin_brackets r (c' :: chain) (c' :: acc)
  end.

Definition finalise (all : list bctx) : list bctx := fin_brackets (map fin_rm (map fin_ma all)) [] [].

(* write_context_tree: the new index of every builder context (None = removed, mapped to its parent's node);
   the root of the new tree is a FRESH Base context (new_tree()), whatever happened to the builder's root *)
Definition root_fctx : fctx := mkCtx CT_Base 1 0 None.
Definition fctx_of (c : bctx) : fctx := mkCtx (bc_ty c) (bc_delta c) (bc_start c) (bc_end c).

(* table, newest first: (builder index, Some (new index, context) | None) *)
Fixpoint renumber (l : list bctx) (next : positive) (acc : list (N * option (positive * fctx))) : list (N * option (positive * fctx)) * positive :=
  match l with
  | [] => (acc, next)
  | c :: r =>
      match bc_parent c with
      | None => renumber r next ((bc_idx c, Some (xH, root_fctx)) :: acc)
      | Some _ => if bc_rm c then renumber r next ((bc_idx c, None) :: acc)
                  else renumber r (Pos.succ next) ((bc_idx c, Some (next, fctx_of c)) :: acc)
      end
  end.

(* a builder chain (indices descending) against the table (indices descending) *)
Fixpoint resolve (tbl : list (N * option (positive * fctx))) (chain : list N) : cstack :=
  match tbl with
  | [] => []
  | (i, e) :: t =>
      match chain with
      | [] => []
      | j :: chain' =>
          if i =? j then match e with Some x => x :: resolve t chain' | None => resolve t chain' end
          else resolve t chain
      end
  end.

(* get_specific_context_stack for every line index 0..n-1: upd ascending by line index *)
Fixpoint expand_stacks (n : nat) (li : N) (cur : cstack) (upd : list (N * cstack)) : list cstack :=
  match n with
  | O => []
  | S k =>
      let (cur, upd) := match upd with
                        | (i, s) :: r => if i <=? li then (s, r) else (cur, upd)
                        | [] => (cur, upd)
                        end in
      cur :: expand_stacks k (N.succ li) cur upd
  end.

Record line_contexts := mkLC { lc_count : nat; lc_table : list fctx; lc_stacks : list cstack }.

(* LineFormattingContexts::new + get_specific_context_stack(i) for i < ntoks.
   tys = the token types of the line's tokens (the Rust loop stops at the first token index without a type) *)
Definition line_contexts_new (lt : LogicalLineType) (ntoks : nat) (tys : list TokenType) : line_contexts :=
  let b := b_loop lt (N.of_nat ntoks) tys None None None (b_init lt new_builder) in
  let all := finalise (sort_by_idx (b_done b ++ b_stack b)) in
  let (tbl, next) := renumber all 2%positive [] in
  let count := Nat.pred (Pos.to_nat next) in
  let upd := map (fun p : N * list N => (fst p, resolve tbl (snd p))) (rev (b_upd b)) in
  mkLC count (root_fctx :: map (fun e => match snd e with Some (_, c) => c | None => root_fctx end)
                               (filter (fun e => match snd e with Some (xH, _) => false | Some _ => true | None => false end) (rev tbl)))
       (expand_stacks ntoks 0 [] upd).
