(* Model/Requirements.v — core/src/rules/optimising_line_formatter/requirements.rs:
   InternalOptimisingLineFormatter::get_formatting_invariant (and the two accessors it calls,
   mod.rs: get_token_type_for_line_index / get_prev_token_type_for_line_index, and
   types.rs: DecisionRequirement, DecisionRequirement::map_can_break).

   get_formatting_invariant(line_index, line) looks at
     cur  = type of the token  line.tokens[line_index]                (None if there is no such token)
     prev = type of the token  line.tokens[line_index] - 1            i.e. the token that precedes it
            IN THE FILE, not in the logical line (None if there is no such line token, or if the
            token is token 0 of the file: `checked_sub(1)?`)
     and, only when prev is a conditional directive, at whether that previous file token is also the
     previous token OF THE LINE (line.tokens[line_index - 1] == line.tokens[line_index] - 1).
   It returns Some(MustNotBreak) / Some(MustBreak) / None; the arms are tried in source order. *)
From PasfmtVerif Require Export Model.Token.

(* types.rs: enum DecisionRequirement *)
Inductive DecisionRequirement : Set :=
  | DR_Indifferent      (* #[default] *)
  | DR_Invalid
  | DR_MustBreak
  | DR_MustNotBreak.

(* types.rs: DecisionRequirement::map_can_break *)
Definition map_can_break (r : DecisionRequirement) (can_break : bool) : DecisionRequirement :=
  match r, can_break with
  | DR_MustBreak, false => DR_Invalid
  | DR_Indifferent, false => DR_MustNotBreak
  | _, _ => r
  end.

(* requirements.rs: get_formatting_invariant, as a function of what it reads.
   cd_outside_line = the guard of the fifth arm:
     line.get_tokens().get(line_index.wrapping_sub(1)).copied()
       != line.get_tokens().get(line_index).map(|&idx| idx.wrapping_sub(1))            *)
Definition formatting_invariant (prev cur : option TokenType) (cd_outside_line : bool)
  : option DecisionRequirement :=
  match prev, cur with
  | None, _ => Some DR_MustNotBreak
  | _, Some (TT_Comment (CoK_InlineLine | CoK_InlineBlock)) => Some DR_MustNotBreak
  | _, Some (TT_Comment (CoK_IndividualLine | CoK_IndividualBlock | CoK_MultilineBlock))
  | _, Some (TT_TextLiteral TK_MultiLine) => Some DR_MustBreak
  | Some (TT_Comment (CoK_IndividualLine | CoK_InlineLine | CoK_MultilineBlock)), _
  | Some (TT_TextLiteral TK_Unterminated), _ => Some DR_MustBreak
  | Some (TT_ConditionalDirective _), _ =>
      if cd_outside_line then Some DR_MustBreak else None
  | _, _ => None
  end.

(* the guard, on the line's token-index list.  line_index.wrapping_sub(1) at line_index = 0 is
   u32::MAX: `get` returns None (a line never has 2^32 tokens).  idx.wrapping_sub(1) == x  iff
   idx = x + 1 (x is a token index, far below usize::MAX; idx = 0 wraps to usize::MAX, which is never a
   token index). *)
Definition cd_outside_line (line_tokens : list nat) (line_index : nat) : bool :=
  let a := match line_index with O => None | S k => nth_error line_tokens k end in
  let b := nth_error line_tokens line_index in
  match a, b with
  | None, None => false
  | Some x, Some idx => negb (Nat.eqb idx (S x))
  | _, _ => true
  end.

(* mod.rs: get_token_type_for_line_index *)
Definition token_type_for_line_index (types : list TokenType) (line_tokens : list nat)
    (line_index : nat) : option TokenType :=
  match nth_error line_tokens line_index with
  | None => None
  | Some token_index => nth_error types token_index
  end.

(* mod.rs: get_prev_token_type_for_line_index *)
Definition prev_token_type_for_line_index (types : list TokenType) (line_tokens : list nat)
    (line_index : nat) : option TokenType :=
  match nth_error line_tokens line_index with
  | None => None
  | Some token_index =>
      match token_index with
      | O => None                                  (* token_index.checked_sub(1)? *)
      | S prev_index => nth_error types prev_index
      end
  end.

(* get_formatting_invariant(line_index, line) on the file's token types and the line's token list *)
Definition get_formatting_invariant (types : list TokenType) (line_tokens : list nat)
    (line_index : nat) : option DecisionRequirement :=
  formatting_invariant
    (prev_token_type_for_line_index types line_tokens line_index)
    (token_type_for_line_index types line_tokens line_index)
    (cd_outside_line line_tokens line_index).

(* ------------------------------------------------------------------ *)
(* a checker for finished layouts.

   Input: the tokens of a file in file order, each with `brk` = "a line break precedes this token"
   (newlines_before > 0).  For token i > 0 the pair (type i-1, type i) is what
   get_formatting_invariant sees whichever logical line token i belongs to; for token 0 prev = None.
   The one thing a flat trace does not tell is the fifth arm's guard; `cd` supplies it per token
   (plan_respects_invariants_flags) or once for all tokens (plan_respects_invariants):
     cd = false : conditional directives never force a break   — fewest obligations, no false alarm
     cd = true  : every token after a conditional directive must break — most obligations. *)

Definition respects (inv : option DecisionRequirement) (brk : bool) : bool :=
  match inv with
  | Some DR_MustBreak => brk
  | Some DR_MustNotBreak => negb brk
  | _ => true
  end.

Fixpoint plan_go (prev : option TokenType) (l : list (TokenType * bool * bool)) : bool :=
  match l with
  | [] => true
  | (ty, brk, cd) :: r =>
      respects (formatting_invariant prev (Some ty) cd) brk && plan_go (Some ty) r
  end.

(* per-token guard flags: (type, break-before, cd_outside_line) *)
Definition plan_respects_invariants_flags (l : list (TokenType * bool * bool)) : bool :=
  plan_go None l.

(* one conservative guard value for every token: (type, break-before) *)
Definition plan_respects_invariants (cd : bool) (l : list (TokenType * bool)) : bool :=
  plan_go None (map (fun p => (fst p, snd p, cd)) l).

(* the positions that violate an invariant (for diagnostics on real traces) *)
Fixpoint plan_violations (cd : bool) (i : nat) (prev : option TokenType) (l : list (TokenType * bool))
  : list nat :=
  match l with
  | [] => []
  | (ty, brk) :: r =>
      (if respects (formatting_invariant prev (Some ty) cd) brk then [] else [i])
        ++ plan_violations cd (S i) (Some ty) r
  end.

(* ------------------------------------------------------------------ *)
(* the exact check when the logical lines are known: `types` and `brks` (break-before flags) indexed
   by file token index, `lines` = each logical line's token-index list.  Returns the file token indices
   whose layout contradicts get_formatting_invariant for (that line, that line_index). *)
Definition line_violations (types : list TokenType) (brks : list bool) (line_tokens : list nat)
  : list nat :=
  flat_map
    (fun li =>
       match nth_error line_tokens li with
       | None => []
       | Some ti =>
           if respects (get_formatting_invariant types line_tokens li) (nth ti brks false)
           then [] else [ti]
       end)
    (seq 0 (length line_tokens)).

Definition lines_violations (types : list TokenType) (brks : list bool) (lines : list (list nat))
  : list nat :=
  flat_map (line_violations types brks) lines.

Definition lines_respect_invariants (types : list TokenType) (brks : list bool)
    (lines : list (list nat)) : bool :=
  match lines_violations types brks lines with [] => true | _ => false end.
