(* Model/FileIO.v — the file layer of orchestrator/src/file_formatter.rs: one file handle with a
   cursor, the generic `write`, the per-file pipeline of exec_format and the result operations of
   format_files / format_files_to_stdout / check_files, plus format_stdin_to_stdout / check_stdin.
   No proofs here. *)
From PasfmtVerif Require Export Model.Encoding.

(* ------------------------------------------------------------------ *)
(* an open file: content of the underlying file, this handle's position, opened for writing? *)

Record file := mkFile { f_content : bytes; f_pos : nat; f_writable : bool }.

(* OpenOptions::new().write(true) + exec_format's read(true) *)
Definition open_rw (c : bytes) : file := mkFile c 0 true.
(* OpenOptions::new() + read(true) *)
Definition open_ro (c : bytes) : file := mkFile c 0 false.

Definition zeros (n : nat) : bytes := List.repeat 0 n.

(* Read::read_to_end(&mut file, buf): APPENDS everything from the position to EOF to buf and leaves
   the position at EOF (unchanged if it already was beyond EOF). *)
Definition read_to_end (f : file) (buf : bytes) : bytes * file :=
  (buf ++ skipn (f_pos f) (f_content f),
   mkFile (f_content f) (Nat.max (f_pos f) (length (f_content f))) (f_writable f)).

(* file.seek(SeekFrom::Start(0)) *)
Definition seek0 (f : file) : file := mkFile (f_content f) 0 (f_writable f).

(* POSIX write at position p: overwrites, extends if needed, a hole beyond EOF reads as zeros *)
Definition overwrite (p : nat) (data c : bytes) : bytes :=
  firstn p c ++ zeros (p - length c) ++ data ++ skipn (p + length data) c.

(* Write::write_all: loops `while !buf.is_empty()`, so empty data performs no system call at all
   (and succeeds even on a read-only handle); otherwise EBADF on a handle not opened for writing. *)
Definition write_all (data : bytes) (f : file) : option file :=
  match data with
  | [] => Some f
  | _ :: _ =>
    if f_writable f
    then Some (mkFile (overwrite (f_pos f) data (f_content f)) (f_pos f + length data) true)
    else None
  end.

(* File::set_len (ftruncate): truncates or zero-extends, position unchanged; error on a handle not
   opened for writing. *)
Definition set_len (n : nat) (f : file) : option file :=
  if f_writable f
  then Some (mkFile (firstn n (f_content f) ++ zeros (n - length (f_content f))) (f_pos f) true)
  else None.

(* stdout as a writer: append only, never fails (a failing stdout is outside the model; for
   format_files_to_stdout it would be a panic in print!) *)
Definition stdout_write_all (data : bytes) (w : bytes) : option bytes := Some (w ++ data).

Section Modes.
  Variable legacy_decode : nat -> bytes -> option text.
  Variable legacy_encode : nat -> text -> option bytes.
  (* Formatter::format, abstract *)
  Variable format : text -> text.

  (* FileFormatter::write(write, encoding, bom, data) for any writer W.
     Returns the writer state and Ok(len) / Err.  `encode` runs FIRST: if it fails, nothing has
     been written.  A failing write_all leaves the writer as it was before that call. *)
  Definition write_to {W : Type} (wa : bytes -> W -> option W) (w : W)
             (e : enc) (bom : option bytes) (data : text) : W * option nat :=
    match encode_with legacy_encode e data with
    | None => (w, None)
    | Some ob =>
      match (match bom with Some b => wa b w | None => Some w end) with
      | None => (w, None)
      | Some w1 =>
        match wa ob w1 with
        | None => (w1, None)
        | Some w2 => (w2, Some (length (bom_bytes bom) + length ob)%nat)
        end
      end
    end.

  (* the `result_operation` closures of exec_format: (file, decoded_file, formatted_output) ->
     (file afterwards, bytes printed to stdout, Err?) *)
  Definition result_op := file -> (option bytes * enc * text) -> text -> file * bytes * bool.

  (* One iteration of the exec_format closure on a file with content c, run by a worker whose
     input buffer holds `prev` AFTER `input_buf.clear()` (so prev = [] in the real program; the
     parameter exists for Model/Batch.v).  Result: (file content afterwards, stdout, Err?). *)
  Definition exec_one (writable : bool) (op : result_op)
             (prev : bytes) (cfg : enc) (c : bytes) : bytes * bytes * bool :=
    let f0 := mkFile c 0 writable in
    let '(buf, f1) := read_to_end f0 prev in
    match decode_file legacy_decode cfg buf with
    | None => (f_content f1, [], true)
    | Some d =>
      let '(_, _, t) := d in
      let '(f2, out, err) := op f1 d (format t) in
      (f_content f2, out, err)
    end.

  (* format_files: skip if unchanged; else seek 0, write_file, set_len(new_len) *)
  Definition op_format_files : result_op := fun f d out =>
    let '(bom, e, t) := d in
    if bytes_eqb t out then (f, [], false)
    else
      let f2 := seek0 f in
      match write_to write_all f2 e bom out with
      | (f3, None) => (f3, [], true)
      | (f3, Some n) =>
        match set_len n f3 with
        | None => (f3, [], true)
        | Some f4 => (f4, [], false)
        end
      end.

  (* format_files_to_stdout: print!("{}:\n{}\n", path, output) — always UTF-8, never fails *)
  Definition op_files_to_stdout (path : bytes) : result_op := fun f _ out =>
    (f, path ++ [58; 10] ++ utf8_encode out ++ [10], false).

  (* check_files / check_formatting *)
  Definition op_check : result_op := fun f d out =>
    let '(_, _, t) := d in (f, [], negb (bytes_eqb t out)).

  (* the three file modes on one file: (new file bytes, stdout bytes, error flag) *)
  Definition files_mode_from (prev : bytes) : enc -> bytes -> bytes * bytes * bool :=
    exec_one true op_format_files prev.
  Definition files_mode : enc -> bytes -> bytes * bytes * bool := files_mode_from [].
  Definition files_to_stdout_mode (path : bytes) : enc -> bytes -> bytes * bytes * bool :=
    exec_one false (op_files_to_stdout path) [].
  Definition check_files_mode : enc -> bytes -> bytes * bytes * bool :=
    exec_one false op_check [].

  (* format_stdin_to_stdout (+ write_stdout): (stdout bytes, error flag); tty = stdout.is_terminal() *)
  Definition stdin_mode (tty : bool) (cfg : enc) (input : bytes) : bytes * bool :=
    match decode_file legacy_decode cfg input with
    | None => ([], true)
    | Some (bom, e, t) =>
      let out := format t in
      let '(e', bom') := if tty then (Utf8, None) else (e, bom) in
      match write_to stdout_write_all [] e' bom' out with
      | (w, None) => (w, true)
      | (w, Some _) => (w, false)
      end
    end.

  (* check_stdin: error flag *)
  Definition check_stdin_mode (cfg : enc) (input : bytes) : bool :=
    match decode_file legacy_decode cfg input with
    | None => true
    | Some (_, _, t) => negb (bytes_eqb t (format t))
    end.
End Modes.

(* front-end/src/main.rs: had_error (AtomicBool, store(true) in the error handler) -> ExitCode *)
Definition err_handler (had_error : bool) : bool := had_error || true.
Definition exit_code (had_error : bool) : N := if had_error then 1 else 0.
